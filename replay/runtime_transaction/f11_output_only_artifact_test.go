package transaction

import (
	"context"
	"os"
	"testing"

	"github.com/stretchr/testify/require"

	"github.com/oasisprotocol/oasis-core/go/common/cbor"
	"github.com/oasisprotocol/oasis-core/go/common/crypto/hash"
	storage "github.com/oasisprotocol/oasis-core/go/storage/api"
	"github.com/oasisprotocol/oasis-core/go/storage/database"
	"github.com/oasisprotocol/oasis-core/go/storage/mkvs"
	"github.com/oasisprotocol/oasis-core/go/storage/mkvs/node"
	"github.com/oasisprotocol/oasis-core/go/storage/mkvs/writelog"
)

// obs1ApplyIOWriteLog stores an I/O write log the way the executor worker does in
// proposeBatch (worker/compute/executor/committee/node.go:745: storage.Apply of the
// runtime-supplied IOWriteLog on top of the empty I/O root) and returns the resulting root.
func obs1ApplyIOWriteLog(t *testing.T, db storage.LocalBackend, wl writelog.WriteLog) node.Root {
	ctx := context.Background()

	root := node.Root{Version: 1, Type: node.RootTypeIO}
	root.Hash.Empty()

	// Compute the I/O root the (untrusted) runtime would report for this write log.
	mem := mkvs.NewWithRoot(nil, nil, root)
	defer mem.Close()
	require.NoError(t, mem.ApplyWriteLog(ctx, writelog.NewStaticIterator(wl)), "ApplyWriteLog")
	_, dstHash, err := mem.Commit(ctx, root.Namespace, root.Version)
	require.NoError(t, err, "Commit")

	var emptyRoot hash.Hash
	emptyRoot.Empty()
	err = db.Apply(ctx, &storage.ApplyRequest{
		Namespace: root.Namespace,
		RootType:  storage.RootTypeIO,
		SrcRound:  root.Version,
		SrcRoot:   emptyRoot,
		DstRound:  root.Version,
		DstRoot:   dstHash,
		WriteLog:  wl,
	})
	require.NoError(t, err, "Apply")

	root.Hash = dstHash
	return root
}

func obs1NewDB(t *testing.T) storage.LocalBackend {
	dir, err := os.MkdirTemp("", "oasis-rt-tx-tree-obs1")
	require.NoError(t, err, "TempDir()")
	t.Cleanup(func() { os.RemoveAll(dir) })

	db, err := database.New(&storage.Config{
		Backend:      database.BackendNameBadgerDB,
		DB:           dir,
		MaxCacheSize: 16 * 1024 * 1024,
		NoFsync:      true,
	})
	require.NoError(t, err, "New()")
	t.Cleanup(db.Cleanup)
	return db
}

// Suspicion (1): an I/O tree that holds an output artifact without its input artifact, keyed by
// the hash of the empty string, must be rejected with an error by GetTransactions (as every other
// output-only artifact is) and must not panic.
func TestObs1OutputOnlyArtifactEmptyHash(t *testing.T) {
	ctx := context.Background()
	db := obs1NewDB(t)

	var emptyHash hash.Hash
	emptyHash.Empty()

	// The I/O write log as emitted by an untrusted runtime: a single output artifact whose
	// transaction hash is H("") and no matching input artifact.
	wl := writelog.WriteLog{
		{
			Key:   txnKeyFmt.Encode(&emptyHash, kindOutput),
			Value: cbor.Marshal(outputArtifacts{Output: []byte("out")}),
		},
	}
	root := obs1ApplyIOWriteLog(t, db, wl)

	// Same as worker/client/service.go:186-189 (RuntimeClient.GetTransactions).
	tree := NewTree(db, root)
	defer tree.Close()

	require.NotPanics(t, func() {
		txs, err := tree.GetTransactions(ctx)
		require.Error(t, err, "GetTransactions must reject an output-only artifact (got %d txs)", len(txs))
	}, "GetTransactions must not panic on an untrusted I/O tree")
}

// Control: the same output-only artifact under any other hash is rejected with an error, which
// shows that the intended behaviour is "reject", and that only H("") slips through.
func TestObs1OutputOnlyArtifactOtherHash(t *testing.T) {
	ctx := context.Background()
	db := obs1NewDB(t)

	h := hash.NewFromBytes([]byte("some input that is not in the tree"))
	wl := writelog.WriteLog{
		{
			Key:   txnKeyFmt.Encode(&h, kindOutput),
			Value: cbor.Marshal(outputArtifacts{Output: []byte("out")}),
		},
	}
	root := obs1ApplyIOWriteLog(t, db, wl)

	tree := NewTree(db, root)
	defer tree.Close()

	_, err := tree.GetTransactions(ctx)
	require.Error(t, err, "GetTransactions must reject an output-only artifact")
}
