package transaction

import (
	"bytes"
	"context"
	"fmt"
	"testing"

	"github.com/stretchr/testify/require"

	"github.com/oasisprotocol/oasis-core/go/common/cbor"
	"github.com/oasisprotocol/oasis-core/go/common/crypto/hash"
	"github.com/oasisprotocol/oasis-core/go/storage/mkvs/writelog"
)

// Suspicion (2), production reachability: keyformat.KeyFormat.Decode is applied to the keys of
// the runtime I/O tree, whose contents are chosen by the (untrusted) runtime / executor committee
// (IOWriteLog is applied unvalidated in worker/compute/executor/committee/node.go:745-753).
//
// A key that starts with the 'T' (or 'E') prefix but is shorter than the key format makes every
// accessor of transaction.Tree panic instead of returning an error.
func TestObs2ShortKeyInIOTree(t *testing.T) {
	ctx := context.Background()
	db := obs1NewDB(t)

	// One honest transaction plus two short keys.
	tx := Transaction{Input: []byte("honest input"), Output: []byte("honest output")}
	txHash := tx.Hash()
	wl := writelog.WriteLog{
		{Key: txnKeyFmt.Encode(&txHash, kindInput), Value: cbor.Marshal(tx.asInputArtifacts())},
		{Key: txnKeyFmt.Encode(&txHash, kindOutput), Value: cbor.Marshal(tx.asOutputArtifacts())},
		// Sorts after every well-formed 'T' key unless its hash starts with 0xff.
		{Key: []byte{'T', 0xff}, Value: []byte("x")},
		// Sorts after every well-formed 'E' key whose tag does not start with 0xff.
		{Key: []byte{'E', 0xff}, Value: []byte("x")},
	}
	root := obs1ApplyIOWriteLog(t, db, wl)

	t.Run("GetTransactions", func(t *testing.T) {
		// worker/client/service.go:189 and :217.
		tree := NewTree(db, root)
		defer tree.Close()
		require.NotPanics(t, func() {
			_, _ = tree.GetTransactions(ctx)
		})
	})
	t.Run("GetTransactionMultiple", func(t *testing.T) {
		// worker/client/committee/node.go:229 (checkBlock, runs for every new block while the
		// node has a pending SubmitTx whose transaction is not in the block).
		tree := NewTree(db, root)
		defer tree.Close()
		// A pending transaction that is not part of this block and whose hash sorts after the
		// last well-formed 'T' key, so that the seek lands on the short key.
		var pending hash.Hash
		for i := 0; ; i++ {
			pending = hash.NewFromBytes([]byte(fmt.Sprintf("pending tx %d", i)))
			if bytes.Compare(pending[:], txHash[:]) > 0 {
				break
			}
		}
		require.NotPanics(t, func() {
			_, _ = tree.GetTransactionMultiple(ctx, []hash.Hash{pending})
		})
	})
	t.Run("GetTags", func(t *testing.T) {
		// worker/client/service.go:222 and :271.
		tree := NewTree(db, root)
		defer tree.Close()
		require.NotPanics(t, func() {
			_, _ = tree.GetTags(ctx)
		})
	})
	t.Run("GetTagMultiple", func(t *testing.T) {
		// runtime/registry/notifier_rofl.go:158.
		tree := NewTree(db, root)
		defer tree.Close()
		require.NotPanics(t, func() {
			_, _ = tree.GetTagMultiple(ctx, [][]byte{[]byte("some.event")})
		})
	})
}

// ValidateIOWriteLog is the one place that feeds raw write log keys into Decode; an empty key
// makes it panic with an index out of range. (It has no production caller on the Go side.)
func TestObs2ValidateIOWriteLogEmptyKey(t *testing.T) {
	wl := writelog.WriteLog{{Key: []byte{}, Value: []byte("x")}}
	require.NotPanics(t, func() {
		err := ValidateIOWriteLog(wl, 10, 1000)
		require.Error(t, err, "a write log with an empty key must be rejected")
	})
}
