package checkpoint

import (
	"bytes"
	"context"
	"fmt"
	"os"
	"path/filepath"
	"sync/atomic"
	"testing"

	"github.com/stretchr/testify/require"

	"github.com/oasisprotocol/oasis-core/go/common"
	"github.com/oasisprotocol/oasis-core/go/storage/mkvs"
	"github.com/oasisprotocol/oasis-core/go/storage/mkvs/db"
	dbApi "github.com/oasisprotocol/oasis-core/go/storage/mkvs/db/api"
	"github.com/oasisprotocol/oasis-core/go/storage/mkvs/node"
)

var f9Ns = common.NewTestNamespaceFromSeed([]byte("oasis mkvs checkpoint f9 ns"), 0)

// f9FlakyDB is a node database whose failAt-th GetNode call (1-based) fails once with a
// transient error. All other calls are passed through to the real node database.
type f9FlakyDB struct {
	dbApi.NodeDB

	calls  atomic.Int64
	failAt int64
}

func (f *f9FlakyDB) GetNode(root node.Root, ptr *node.Pointer) (node.Node, error) {
	if n := f.calls.Add(1); n == f.failAt {
		return nil, fmt.Errorf("f9: injected transient read failure (call %d)", n)
	}
	return f.NodeDB.GetNode(root, ptr)
}

func f9Key(i int) []byte   { return []byte(fmt.Sprintf("f9 key %04d", i)) }
func f9Value(i int) []byte { return []byte(fmt.Sprintf("f9 value %04d with some padding", i)) }

// TestF9SequentialChunkerLookAheadError checks that whenever CreateCheckpoint
// reports success, the checkpoint is the (deterministic) checkpoint of the root and restoring it
// into an empty database yields exactly the checkpointed contents -- even when a read from the
// source node database failed while the checkpoint was being created.
func TestF9SequentialChunkerLookAheadError(t *testing.T) {
	for _, factory := range db.Backends {
		t.Run(factory.Name(), func(t *testing.T) {
			f9TransientReadFailure(t, factory)
		})
	}
}

func f9TransientReadFailure(t *testing.T, factory dbApi.Factory) {
	require := require.New(t)
	ctx := context.Background()

	const (
		numKeys   = 300
		chunkSize = 2048    // Several chunks: the look-ahead read between chunks is what is not checked.
		threads   = 0       // Sequential chunker.
	)

	dir, err := os.MkdirTemp("", "mkvs.checkpoint.seeddemo")
	require.NoError(err, "MkdirTemp")
	defer os.RemoveAll(dir)

	// Source database.
	ndb1, err := factory.New(&dbApi.Config{
		DB:           filepath.Join(dir, "db1"),
		Namespace:    f9Ns,
		MaxCacheSize: 16 * 1024 * 1024,
	})
	require.NoError(err, "New(db1)")
	defer ndb1.Close()

	tree := mkvs.New(nil, ndb1, node.RootTypeState)
	for i := 0; i < numKeys; i++ {
		require.NoError(tree.Insert(ctx, f9Key(i), f9Value(i)), "Insert")
	}
	_, rootHash, err := tree.Commit(ctx, f9Ns, 1)
	require.NoError(err, "Commit")
	tree.Close()
	root := node.Root{Namespace: f9Ns, Version: 1, Type: node.RootTypeState, Hash: rootHash}
	require.NoError(ndb1.Finalize([]node.Root{root}), "Finalize(db1)")

	// Reference checkpoint, created without any failures. Also tells us how many node reads the
	// creation of the checkpoint needs.
	refDB := &f9FlakyDB{NodeDB: ndb1}
	refFc, err := NewFileCreator(filepath.Join(dir, "checkpoints-ref"), refDB)
	require.NoError(err, "NewFileCreator")
	refCp, err := refFc.CreateCheckpoint(ctx, root, chunkSize, threads)
	require.NoError(err, "CreateCheckpoint (reference)")
	totalReads := refDB.calls.Load()
	require.Greater(totalReads, int64(10), "the checkpointed tree should need more than a few reads")

	// Sanity: the reference checkpoint restores to exactly the checkpointed contents.
	f9RestoreAndVerify(t, factory, filepath.Join(dir, "db-ref"), refFc, refCp, root, numKeys)

	// Now make a single read fail at various points while the checkpoint is being created.
	var failed, succeeded int
	var truncated []int64
	for i := 0; int64(i) < totalReads; i++ {
		failAt := int64(i + 1)
		flaky := &f9FlakyDB{NodeDB: ndb1, failAt: failAt}
		fc, err := NewFileCreator(filepath.Join(dir, fmt.Sprintf("checkpoints-%d", i)), flaky)
		require.NoError(err, "NewFileCreator")

		cp, err := fc.CreateCheckpoint(ctx, root, chunkSize, threads)
		require.GreaterOrEqual(flaky.calls.Load(), failAt, "the failure should have been injected (failAt=%d)", failAt)
		if err != nil {
			// Creation failed, which is fine. No checkpoint must be advertised and retrying (the
			// failure was transient) must now produce the reference checkpoint.
			failed++

			cps, err := fc.GetCheckpoints(ctx, &GetCheckpointsRequest{Version: v1})
			require.NoError(err, "GetCheckpoints")
			require.Empty(cps, "a failed checkpoint creation must not leave a checkpoint behind (failAt=%d)", failAt)

			cp, err = fc.CreateCheckpoint(ctx, root, chunkSize, threads)
			require.NoError(err, "CreateCheckpoint (retry, failAt=%d)", failAt)
		} else {
			succeeded++
		}

		// Creation reported success, so this must be *the* checkpoint for the root.
		if refCp.EncodedHash().Hex() != cp.EncodedHash().Hex() {
			truncated = append(truncated, failAt)
			if len(truncated) == 1 {
				t.Logf("failAt=%d: CreateCheckpoint reported success with %d chunks, the reference has %d", failAt, len(cp.Chunks), len(refCp.Chunks))
			}
		}
		os.RemoveAll(filepath.Join(dir, fmt.Sprintf("checkpoints-%d", i)))
	}
	require.Empty(truncated, "CreateCheckpoint reported success but produced a different (truncated) checkpoint for these failing read positions")
	t.Logf("checkpoint creations that failed: %d, that succeeded despite the failed read: %d", failed, succeeded)
}

// f9RestoreAndVerify restores the checkpoint into a fresh database and makes sure that the
// restored root contains exactly the checkpointed contents.
func f9RestoreAndVerify(t *testing.T, factory dbApi.Factory, dbDir string, fc Creator, cp *Metadata, root node.Root, numKeys int) {
	require := require.New(t)
	ctx := context.Background()

	ndb2, err := factory.New(&dbApi.Config{
		DB:           dbDir,
		Namespace:    f9Ns,
		MaxCacheSize: 16 * 1024 * 1024,
	})
	require.NoError(err, "New(db2)")
	defer ndb2.Close()

	rs, err := NewRestorer(ndb2)
	require.NoError(err, "NewRestorer")
	require.NoError(ndb2.StartMultipartInsert(cp.Root.Version), "StartMultipartInsert")
	require.NoError(rs.StartRestore(ctx, cp), "StartRestore")
	for i := range cp.Chunks {
		cm, err := cp.GetChunkMetadata(uint64(i))
		require.NoError(err, "GetChunkMetadata")
		var buf bytes.Buffer
		require.NoError(fc.GetCheckpointChunk(ctx, cm, &buf), "GetCheckpointChunk")
		done, err := rs.RestoreChunk(ctx, uint64(i), &buf)
		require.NoError(err, "RestoreChunk(%d)", i)
		require.Equal(i == len(cp.Chunks)-1, done, "completion must be signalled exactly on the last chunk")
	}
	require.NoError(ndb2.Finalize([]node.Root{root}), "Finalize(db2)")

	restored := mkvs.NewWithRoot(nil, ndb2, root)
	defer restored.Close()
	for i := 0; i < numKeys; i++ {
		v, err := restored.Get(ctx, f9Key(i))
		require.NoError(err, "Get(%s) from restored database", f9Key(i))
		require.Equal(f9Value(i), v, "value of %s in restored database", f9Key(i))
	}

	it := restored.NewIterator(ctx)
	defer it.Close()
	var count int
	for it.Rewind(); it.Valid(); it.Next() {
		count++
	}
	require.NoError(it.Err(), "iterating the restored database")
	require.Equal(numKeys, count, "restored database must contain exactly the checkpointed keys")
}
