package checkpoint

import (
	"bytes"
	"context"
	"fmt"
	"os"
	"path/filepath"
	"testing"

	"github.com/stretchr/testify/require"

	"github.com/oasisprotocol/oasis-core/go/storage/mkvs"
	"github.com/oasisprotocol/oasis-core/go/storage/mkvs/db"
	dbApi "github.com/oasisprotocol/oasis-core/go/storage/mkvs/db/api"
	dbTesting "github.com/oasisprotocol/oasis-core/go/storage/mkvs/db/testing"
	"github.com/oasisprotocol/oasis-core/go/storage/mkvs/node"
)

// TestReproAbortedRestoreRestart reproduces a checkpoint restore that is aborted half-way and then
// restarted from scratch, the way the production callers do it:
//
//   - go/worker/storage/committee/checkpoint_sync.go: syncCheckpoints() does
//     AbortMultipartInsert + StartMultipartInsert(version), handleCheckpoint() does StartRestore,
//     RestoreChunk... and on failure AbortRestore (deferred); on exit from syncCheckpoints() the
//     deferred AbortMultipartInsert runs. worker.go then retries syncCheckpoints() in the same
//     process (CheckpointSyncRetry loop), which again does AbortMultipartInsert +
//     StartMultipartInsert(version) + StartRestore + all chunks + Finalize.
//   - go/consensus/cometbft/abci/snapshots.go: StartMultipartInsert + StartRestore, chunk failure
//     => AbortRestore + AbortMultipartInsert, next OfferSnapshot => StartMultipartInsert +
//     StartRestore, ..., Finalize.
func TestReproAbortedRestoreRestart(t *testing.T) {
	dbTesting.TestMultipleBackends(t, db.Backends, testReproAbortedRestoreRestart)
}

func testReproAbortedRestoreRestart(t *testing.T, factory dbApi.Factory) {
	// Production fetches chunks in parallel, so the order in which chunks are restored in the
	// second attempt is not necessarily the same as in the first one.
	t.Run("SameOrder", func(t *testing.T) { doReproAbortedRestoreRestart(t, factory, false) })
	t.Run("ReverseOrder", func(t *testing.T) { doReproAbortedRestoreRestart(t, factory, true) })
}

func doReproAbortedRestoreRestart(t *testing.T, factory dbApi.Factory, reverse bool) {
	require := require.New(t)
	ctx := context.Background()

	dir, err := os.MkdirTemp("", "mkvs.checkpoint.repro")
	require.NoError(err, "TempDir")
	defer os.RemoveAll(dir)

	// Source node database with a few hundred keys.
	ndb, err := factory.New(&dbApi.Config{
		DB:           filepath.Join(dir, "db"),
		Namespace:    testNs,
		MaxCacheSize: 16 * 1024 * 1024,
	})
	require.NoError(err, "New (source)")
	defer ndb.Close()

	const numKeys = 500
	key := func(i int) []byte { return []byte(fmt.Sprintf("key %04d", i)) }
	val := func(i int) []byte { return []byte(fmt.Sprintf("value %04d / some padding to make it larger", i)) }

	tree := mkvs.New(nil, ndb, node.RootTypeState)
	for i := 0; i < numKeys; i++ {
		require.NoError(tree.Insert(ctx, key(i), val(i)), "Insert")
	}
	_, rootHash, err := tree.Commit(ctx, testNs, 1)
	require.NoError(err, "Commit")
	tree.Close()
	root := node.Root{Namespace: testNs, Version: 1, Type: node.RootTypeState, Hash: rootHash}
	require.NoError(ndb.Finalize([]node.Root{root}), "Finalize (source)")

	// Checkpoint with a small chunk size so that there are several chunks.
	fc, err := NewFileCreator(filepath.Join(dir, "checkpoints"), ndb)
	require.NoError(err, "NewFileCreator")
	cp, err := fc.CreateCheckpoint(ctx, root, 4*1024, 0)
	require.NoError(err, "CreateCheckpoint")
	numChunks := len(cp.Chunks)
	t.Logf("checkpoint has %d chunks", numChunks)
	require.GreaterOrEqual(numChunks, 4, "need several chunks")

	// Fresh destination node database.
	ndb2, err := factory.New(&dbApi.Config{
		DB:           filepath.Join(dir, "db2"),
		Namespace:    testNs,
		MaxCacheSize: 16 * 1024 * 1024,
	})
	require.NoError(err, "New (destination)")
	defer ndb2.Close()

	rs, err := NewRestorer(ndb2)
	require.NoError(err, "NewRestorer")

	restoreChunks := func(from, to int, reverse bool) bool {
		var done bool
		for j := from; j < to; j++ {
			i := j
			if reverse {
				i = to - 1 - (j - from)
			}
			cm, err := cp.GetChunkMetadata(uint64(i))
			require.NoError(err, "GetChunkMetadata")
			var buf bytes.Buffer
			require.NoError(fc.GetCheckpointChunk(ctx, cm, &buf), "GetCheckpointChunk")
			done, err = rs.RestoreChunk(ctx, uint64(i), &buf)
			require.NoError(err, "RestoreChunk(%d)", i)
		}
		return done
	}

	// First attempt (checkpoint_sync.go:475-478, :199): restore about half of the chunks.
	require.NoError(ndb2.AbortMultipartInsert(), "AbortMultipartInsert (no-op, as in syncCheckpoints)")
	require.NoError(ndb2.StartMultipartInsert(cp.Root.Version), "StartMultipartInsert #1")
	require.NoError(rs.StartRestore(ctx, cp), "StartRestore #1")
	done := restoreChunks(0, numChunks/2, false)
	require.False(done, "restore must not be done after half of the chunks")

	// Abort exactly as production does (checkpoint_sync.go:212 + :432; snapshots.go:231 + :236).
	require.NoError(rs.AbortRestore(ctx), "AbortRestore")
	require.NoError(ndb2.AbortMultipartInsert(), "AbortMultipartInsert")

	// Second attempt (retry of syncCheckpoints): restore ALL chunks and finalize.
	require.NoError(ndb2.AbortMultipartInsert(), "AbortMultipartInsert (no-op, as in syncCheckpoints)")
	require.NoError(ndb2.StartMultipartInsert(cp.Root.Version), "StartMultipartInsert #2")
	require.NoError(rs.StartRestore(ctx, cp), "StartRestore #2")
	done = restoreChunks(0, numChunks, reverse)
	require.True(done, "restore must be done after all chunks")
	require.NoError(ndb2.Finalize([]node.Root{cp.Root}), "Finalize (destination)")

	// Read back every key via a tree opened at the checkpoint root on the destination.
	require.True(ndb2.HasRoot(root), "destination must have the root")
	src := mkvs.NewWithRoot(nil, ndb, root)
	defer src.Close()
	dst := mkvs.NewWithRoot(nil, ndb2, root)
	defer dst.Close()

	var missing, mismatched int
	var firstErr error
	for i := 0; i < numKeys; i++ {
		want, err := src.Get(ctx, key(i))
		require.NoError(err, "source Get(%d)", i)
		require.Equal(val(i), want, "source value")

		got, err := dst.Get(ctx, key(i))
		switch {
		case err != nil:
			missing++
			if firstErr == nil {
				firstErr = fmt.Errorf("Get(%q): %w", key(i), err)
			}
		case !bytes.Equal(got, want):
			mismatched++
			if firstErr == nil {
				firstErr = fmt.Errorf("Get(%q): got %q, want %q", key(i), got, want)
			}
		}
	}
	t.Logf("backend=%s keys=%d unreadable=%d mismatched=%d firstErr=%v",
		factory.Name(), numKeys, missing, mismatched, firstErr)
	require.Zero(missing+mismatched, "all keys must be readable after aborted+restarted restore (first error: %v)", firstErr)
}
