package stateless

// Observation 1: the LastCommit carried in Block.Meta is bound to the light
// client verified header only through Commit.Hash(), which in CometBFT covers
// the commit signatures only -- not Height, Round or BlockID.
//
// The test drives the real Core.GetBlock (real light client verifying real
// mainnet light blocks; see zz_obs_harness_test.go) with an untrusted provider
// that alters those fields in the block it returns.
//
// Needs zz_obs_harness_test.go.

import (
	"context"
	"testing"

	cmtproto "github.com/cometbft/cometbft/proto/tendermint/types"
	cmttypes "github.com/cometbft/cometbft/types"
	"github.com/stretchr/testify/require"

	"github.com/oasisprotocol/oasis-core/go/common/cbor"
	consensusAPI "github.com/oasisprotocol/oasis-core/go/consensus/api"
	"github.com/oasisprotocol/oasis-core/go/consensus/cometbft/api"
	"github.com/oasisprotocol/oasis-core/go/consensus/cometbft/light"
)

func obsDecodeLastCommit(t *testing.T, blk *consensusAPI.Block) (*api.BlockMeta, *cmtproto.Commit) {
	var meta api.BlockMeta
	require.NoError(t, cbor.Unmarshal(blk.Meta, &meta))
	var pb cmtproto.Commit
	require.NoError(t, pb.Unmarshal(meta.LastCommit))
	return &meta, &pb
}

func obsWithLastCommit(t *testing.T, blk *consensusAPI.Block, modify func(*cmtproto.Commit)) *consensusAPI.Block {
	meta, pb := obsDecodeLastCommit(t, blk)
	modify(pb)
	raw, err := pb.Marshal()
	require.NoError(t, err)
	meta.LastCommit = raw

	altered := *blk
	altered.Meta = cbor.Marshal(meta)
	return &altered
}

type obs1Case struct {
	name   string
	modify func(*cmtproto.Commit)
	// signed is true iff the altered field is covered only by the commit
	// signatures (and not by any field of the block header).
	signed bool
}

var obs1Cases = []obs1Case{
	{name: "Height", modify: func(c *cmtproto.Commit) { c.Height = 1 }},
	{name: "Round", modify: func(c *cmtproto.Commit) { c.Round += 7 }, signed: true},
	{name: "BlockID.Hash", modify: func(c *cmtproto.Commit) {
		c.BlockID.Hash = append([]byte{}, c.BlockID.Hash...)
		c.BlockID.Hash[0] ^= 0xff
	}},
	{name: "BlockID.PartSetHeader", modify: func(c *cmtproto.Commit) {
		c.BlockID.PartSetHeader.Total += 41
		c.BlockID.PartSetHeader.Hash = append([]byte{}, c.BlockID.PartSetHeader.Hash...)
		c.BlockID.PartSetHeader.Hash[0] ^= 0xff
	}},
	{name: "Height=0 and nil BlockID", modify: func(c *cmtproto.Commit) {
		c.Height = 0
		c.BlockID = cmtproto.BlockID{}
	}},
}

// TestObs1LastCommitBinding drives the real Core.GetBlock.
//
// The block used is the genuine mainnet block 25300001, reconstructed from the
// recorded light blocks (header of light block 25300001 + canonical commit of
// light block 25300000), because for that height the recorded fixtures also
// contain the validator set that signed the last commit (needed by a complete
// fix). The recorded block_25300000.json is covered by the test below.
func TestObs1LastCommitBinding(t *testing.T) {
	ctx := context.Background()

	const height = obsHeight + 1
	c, provider := newObsCore(t, height)
	honest := provider.nextBlock

	// Sanity: the unmodified block is accepted and its last commit is
	// consistent with the verified header.
	blk, err := c.GetBlock(ctx, height)
	require.NoError(t, err, "honest block should be accepted")
	meta, pb := obsDecodeLastCommit(t, blk)
	var hpb cmtproto.Header
	require.NoError(t, hpb.Unmarshal(meta.Header))
	header, err := cmttypes.HeaderFromProto(&hpb)
	require.NoError(t, err)
	commit, err := cmttypes.CommitFromProto(pb)
	require.NoError(t, err)
	require.EqualValues(t, height-1, commit.Height)
	require.True(t, commit.BlockID.Equals(header.LastBlockID))
	t.Logf("honest last commit: height=%d round=%d block_id=%s", commit.Height, commit.Round, commit.BlockID)

	for _, tc := range obs1Cases {
		t.Run(tc.name, func(t *testing.T) {
			provider.nextBlock = obsWithLastCommit(t, honest, tc.modify)

			got, err := c.GetBlock(ctx, height)
			if err != nil {
				t.Logf("rejected: %v", err)
				return
			}

			_, gotPb := obsDecodeLastCommit(t, got)
			gotCommit, _ := cmttypes.CommitFromProto(gotPb)
			t.Errorf("Core.GetBlock(%d) accepted a block whose LastCommit was altered by the provider:\n"+
				"   verified header: height-1=%d last_block_id=%s\n"+
				"   returned commit: height=%d round=%d block_id=%s\n"+
				"   honest commit:   height=%d round=%d block_id=%s",
				height, header.Height-1, header.LastBlockID,
				gotCommit.Height, gotCommit.Round, gotCommit.BlockID,
				commit.Height, commit.Round, commit.BlockID,
			)
		})
	}
}

// TestObs1VerifyBlockRecorded runs the same alterations of the recorded block
// fixture (testdata/block_25300000.json) through verifyBlock, like the
// package's own TestVerification does.
//
// The round is covered only by the commit signatures, which verifyBlock cannot
// check on its own (it has no access to the validator set of the previous
// height), so it is not expected to be rejected here.
func TestObs1VerifyBlockRecorded(t *testing.T) {
	clb, err := testLightBlock()
	require.NoError(t, err)
	lb, err := light.DecodeLightBlock(clb)
	require.NoError(t, err)
	honest, err := testBlock()
	require.NoError(t, err)
	require.NoError(t, verifyBlock(honest, lb), "honest block should be accepted")

	for _, tc := range obs1Cases {
		if tc.signed {
			continue
		}
		t.Run(tc.name, func(t *testing.T) {
			altered := obsWithLastCommit(t, honest, tc.modify)
			err := verifyBlock(altered, lb)
			require.Error(t, err, "verifyBlock accepted a block whose LastCommit was altered")
			t.Logf("rejected: %v", err)
		})
	}
}
