package stateless

// Observation 2: full.TransactionResultsFromCometBFT indexes txs[idx] while
// looping over the provider's block results. At the latest trusted height the
// results cannot (yet) be verified against the next header's LastResultsHash,
// so a provider returning more results than transactions makes the stateless
// Core panic instead of returning an error.
//
// The test drives the real Core.GetTransactionsWithResults (real light client
// verifying real mainnet light blocks; see zz_obs_harness_test.go).
//
// Needs zz_obs_harness_test.go.

import (
	"context"
	"testing"

	cmtabcitypes "github.com/cometbft/cometbft/abci/types"
	"github.com/stretchr/testify/require"

	"github.com/oasisprotocol/oasis-core/go/common/cbor"
	consensusAPI "github.com/oasisprotocol/oasis-core/go/consensus/api"
	"github.com/oasisprotocol/oasis-core/go/consensus/cometbft/api"
)

func obsWithResults(t *testing.T, results *consensusAPI.BlockResults, modify func(*api.BlockResultsMeta)) *consensusAPI.BlockResults {
	meta, err := api.NewBlockResultsMeta(results)
	require.NoError(t, err)
	modify(meta)
	return &consensusAPI.BlockResults{
		Height: results.Height,
		Meta:   cbor.Marshal(meta),
	}
}

func TestObs2ResultsAtLatestHeight(t *testing.T) {
	ctx := context.Background()

	honest, err := testResults()
	require.NoError(t, err)

	extraResult := func(meta *api.BlockResultsMeta) {
		meta.TxsResults = append(meta.TxsResults, &cmtabcitypes.ResponseDeliverTx{})
	}
	nilResult := func(meta *api.BlockResultsMeta) {
		meta.TxsResults[0] = nil // Encoded as CBOR null.
	}

	check := func(t *testing.T, c *Core, height int64) {
		var (
			rsp *consensusAPI.TransactionsWithResults
			err error
		)
		if p := obsRecover(func() {
			rsp, err = c.GetTransactionsWithResults(ctx, height)
		}); p != nil {
			t.Fatalf("Core.GetTransactionsWithResults(%d) PANICKED on an untrusted provider response: %v", height, p)
		}
		require.Error(t, err, "altered block results must be rejected")
		require.Nil(t, rsp)
		t.Logf("rejected: %v", err)
	}

	t.Run("LatestHeight", func(t *testing.T) {
		// The light client only knows heights up to obsHeight, so the results
		// at obsHeight are not verifiable against the next header.
		c, provider := newObsCore(t, obsHeight)

		// Sanity: honest data is accepted.
		rsp, err := c.GetTransactionsWithResults(ctx, consensusAPI.HeightLatest)
		require.NoError(t, err, "honest results should be accepted")
		require.Len(t, rsp.Results, len(rsp.Transactions))

		t.Run("MoreResultsThanTransactions", func(t *testing.T) {
			provider.results = obsWithResults(t, honest, extraResult)
			check(t, c, consensusAPI.HeightLatest)
		})
		t.Run("FewerTransactionsThanResults", func(t *testing.T) {
			// Same thing the other way around: the (verified) transaction list
			// of an empty-ish block and a non-empty result list.
			provider.results = obsWithResults(t, honest, func(meta *api.BlockResultsMeta) {
				meta.TxsResults = append(meta.TxsResults, meta.TxsResults...)
			})
			check(t, c, obsHeight)
		})
		t.Run("NilResult", func(t *testing.T) {
			provider.results = obsWithResults(t, honest, nilResult)
			check(t, c, obsHeight)
		})
	})

	t.Run("BelowLatestHeight", func(t *testing.T) {
		// The light client knows obsHeight+1, so the results at obsHeight are
		// bound to the verified LastResultsHash.
		c, provider := newObsCore(t, obsHeight+1)

		rsp, err := c.GetTransactionsWithResults(ctx, obsHeight)
		require.NoError(t, err, "honest results should be accepted")
		require.Len(t, rsp.Results, len(rsp.Transactions))

		t.Run("MoreResultsThanTransactions", func(t *testing.T) {
			provider.results = obsWithResults(t, honest, extraResult)
			check(t, c, obsHeight)
		})
		t.Run("NilResult", func(t *testing.T) {
			provider.results = obsWithResults(t, honest, nilResult)
			check(t, c, obsHeight)
		})
		t.Run("NilResult/GetBlockResults", func(t *testing.T) {
			provider.results = obsWithResults(t, honest, nilResult)
			var err error
			if p := obsRecover(func() {
				_, err = c.GetBlockResults(ctx, obsHeight)
			}); p != nil {
				t.Fatalf("Core.GetBlockResults(%d) PANICKED on an untrusted provider response: %v", obsHeight, p)
			}
			require.Error(t, err)
		})
	})
}
