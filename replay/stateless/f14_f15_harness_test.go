package stateless

// Shared harness for the zz_obs*_test.go observation tests.
//
// It builds a REAL stateless Core the way production does (NewCore on top of
// a real light.Client), with:
//
//   - three in-process libp2p peers that honestly serve the recorded mainnet
//     light blocks (testdata/light_block_2530000{0,1}.json) over the real
//     light-client P2P protocol, so that the CometBFT light client verifies
//     real mainnet headers/commits, and
//   - an untrusted consensus provider (obsBackend) whose responses the test
//     can alter, exactly like a malicious remote node would.

import (
	"context"
	"crypto/rand"
	"fmt"
	"runtime/debug"
	"strings"
	"testing"
	"time"

	cmtlight "github.com/cometbft/cometbft/light"
	cmttypes "github.com/cometbft/cometbft/types"
	"github.com/libp2p/go-libp2p"
	"github.com/libp2p/go-libp2p/core"
	"github.com/libp2p/go-libp2p/core/host"
	"github.com/libp2p/go-libp2p/core/peer"
	"github.com/multiformats/go-multiaddr"
	"github.com/stretchr/testify/require"

	"github.com/oasisprotocol/oasis-core/go/common/crypto/signature"
	"github.com/oasisprotocol/oasis-core/go/common/crypto/signature/signers/memory"
	consensusAPI "github.com/oasisprotocol/oasis-core/go/consensus/api"
	"github.com/oasisprotocol/oasis-core/go/consensus/cometbft/api"
	"github.com/oasisprotocol/oasis-core/go/consensus/cometbft/light"
	p2pLight "github.com/oasisprotocol/oasis-core/go/consensus/p2p/light"
	p2pAPI "github.com/oasisprotocol/oasis-core/go/p2p/api"
)

const obsHeight = 25300000

// obsP2P is a minimal rpc.P2P backed by a libp2p host.
type obsP2P struct {
	host host.Host
}

func (p *obsP2P) BlockPeer(core.PeerID)                      {}
func (p *obsP2P) RegisterProtocol(core.ProtocolID, int, int) {}
func (p *obsP2P) Host() core.Host                            { return p.host }

// obsBackend is a consensus backend serving the recorded fixtures.
//
// All fields may be altered by the test to model a malicious provider.
type obsBackend struct {
	*mockBackend

	latest      int64
	lightBlocks map[int64]*consensusAPI.LightBlock
	block       *consensusAPI.Block // Block at obsHeight (recorded).
	nextBlock   *consensusAPI.Block // Block at obsHeight+1 (reconstructed from recorded light blocks).
	txs         [][]byte
	results     *consensusAPI.BlockResults
}

func (b *obsBackend) GetLatestHeight(context.Context) (int64, error) {
	return b.latest, nil
}

func (b *obsBackend) GetLightBlock(_ context.Context, height int64) (*consensusAPI.LightBlock, error) {
	if height == consensusAPI.HeightLatest {
		height = b.latest
	}
	lb, ok := b.lightBlocks[height]
	if !ok || height > b.latest {
		return nil, consensusAPI.ErrVersionNotFound
	}
	return lb, nil
}

func (b *obsBackend) GetValidators(context.Context, int64) (*consensusAPI.Validators, error) {
	return nil, consensusAPI.ErrVersionNotFound
}

func (b *obsBackend) GetBlock(_ context.Context, height int64) (*consensusAPI.Block, error) {
	switch {
	case height == obsHeight:
		return b.block, nil
	case height == obsHeight+1 && height <= b.latest:
		return b.nextBlock, nil
	default:
		return nil, consensusAPI.ErrVersionNotFound
	}
}

func (b *obsBackend) GetTransactions(_ context.Context, height int64) ([][]byte, error) {
	if height != obsHeight {
		return nil, consensusAPI.ErrVersionNotFound
	}
	return b.txs, nil
}

func (b *obsBackend) GetBlockResults(_ context.Context, height int64) (*consensusAPI.BlockResults, error) {
	if height != obsHeight {
		return nil, consensusAPI.ErrVersionNotFound
	}
	return b.results, nil
}

func newObsBackend(t *testing.T, latest int64) *obsBackend {
	clb, err := testLightBlock()
	require.NoError(t, err)
	clb2, err := testNextLightBlock()
	require.NoError(t, err)
	blk, err := testBlock()
	require.NoError(t, err)
	txs, err := testTransactions()
	require.NoError(t, err)
	results, err := testResults()
	require.NoError(t, err)

	return &obsBackend{
		mockBackend: newMockBackend(0, false),
		latest:      latest,
		lightBlocks: map[int64]*consensusAPI.LightBlock{
			obsHeight:     clb,
			obsHeight + 1: clb2,
		},
		block:     blk,
		nextBlock: obsNextBlock(t),
		txs:       txs,
		results:   results,
	}
}

// newObsCore creates a real stateless core whose light client is fed (honestly)
// with the recorded mainnet light blocks up to and including the given latest
// height, and whose untrusted provider is the returned backend.
func newObsCore(t *testing.T, latest int64) (*Core, *obsBackend) {
	require := require.New(t)

	ctx, cancel := context.WithCancel(context.Background())
	t.Cleanup(cancel)

	clb, err := testLightBlock()
	require.NoError(err)
	lb, err := light.DecodeLightBlock(clb)
	require.NoError(err)

	// The CometBFT chain ID is a prefix of the chain context.
	chainID := lb.ChainID
	require.LessOrEqual(len(chainID), 64)
	chainContext := chainID + strings.Repeat("0", 64-len(chainID))

	newHost := func() host.Host {
		listenAddr, err := multiaddr.NewMultiaddr("/ip4/127.0.0.1/tcp/0")
		require.NoError(err)
		// Oasis Core replaces libp2p's Ed25519 verification with a domain
		// separated one, so hosts must be identified by an Oasis signer.
		signer, err := memory.NewFactory().Generate(signature.SignerP2P, rand.Reader)
		require.NoError(err)
		h, err := libp2p.New(
			libp2p.ListenAddrs(listenAddr),
			libp2p.Identity(p2pAPI.SignerToPrivKey(signer)),
		)
		require.NoError(err)
		t.Cleanup(func() { _ = h.Close() })
		return h
	}

	// Honest light block servers (primary + 2 witnesses).
	var servers []host.Host
	for range 3 {
		h := newHost()
		srv := p2pLight.NewServer(&obsP2P{host: h}, chainContext, newObsBackend(t, latest))
		h.SetStreamHandler(srv.Protocol(), srv.HandleStream)
		servers = append(servers, h)
	}

	clientHost := newHost()
	for _, h := range servers {
		cctx, ccancel := context.WithTimeout(ctx, 5*time.Second)
		err = clientHost.Connect(cctx, peer.AddrInfo{ID: h.ID(), Addrs: h.Addrs()})
		ccancel()
		require.NoError(err)
	}

	lightClient, err := light.NewClient(ctx, chainContext, &obsP2P{host: clientHost}, light.Config{
		GenesisDocument: &cmttypes.GenesisDoc{ChainID: chainID},
		TrustOptions: cmtlight.TrustOptions{
			Period: 100 * 365 * 24 * time.Hour,
			Height: obsHeight,
			Hash:   lb.Hash(),
		},
	})
	require.NoError(err)

	// Wait for the light client providers to obtain their peers and for
	// the trust root to be verified.
	deadline := time.Now().Add(30 * time.Second)
	for {
		_, err = lightClient.VerifyLightBlockAt(ctx, obsHeight)
		if err == nil {
			break
		}
		if time.Now().After(deadline) {
			require.NoError(err, "light client should verify the trust root")
		}
		time.Sleep(100 * time.Millisecond)
	}
	if latest > obsHeight {
		_, err = lightClient.VerifyLightBlockAt(ctx, latest)
		require.NoError(err, "light client should verify the latest light block")
	}
	last, err := lightClient.LastTrustedHeight()
	require.NoError(err)
	require.EqualValues(latest, last, "unexpected last trusted height")

	provider := newObsBackend(t, latest)
	c := NewCore(provider, lightClient, Config{
		ChainID:       chainID,
		ChainContext:  chainContext,
		GenesisHeight: 1,
	})

	return c, provider
}

// obsNextBlock reconstructs the genuine consensus block at obsHeight+1 from
// the recorded mainnet light blocks: its header is the header of the light
// block at obsHeight+1 and its last commit is the (canonical) commit of the
// light block at obsHeight (its hash equals the header's LastCommitHash).
func obsNextBlock(t *testing.T) *consensusAPI.Block {
	clb, err := testLightBlock()
	require.NoError(t, err)
	clb2, err := testNextLightBlock()
	require.NoError(t, err)
	lb, err := light.DecodeLightBlock(clb)
	require.NoError(t, err)
	lb2, err := light.DecodeLightBlock(clb2)
	require.NoError(t, err)
	require.EqualValues(t, lb2.LastCommitHash, lb.Commit.Hash(), "recorded commit should be the canonical one")

	blk, err := api.NewBlock(&cmttypes.Block{
		Header:     *lb2.Header,
		LastCommit: lb.Commit,
	})
	require.NoError(t, err)
	require.NoError(t, verifyBlock(blk, lb2), "reconstructed block should verify")
	return blk
}

// obsRecover runs fn and converts a panic into a description (panic value
// followed by the source locations of the panicking frames).
func obsRecover(fn func()) (panicked any) {
	defer func() {
		if p := recover(); p != nil {
			var where []string
			for _, line := range strings.Split(string(debug.Stack()), "\n") {
				line = strings.TrimSpace(line)
				if !strings.Contains(line, ".go:") || strings.Contains(line, "zz_obs") ||
					strings.Contains(line, "/runtime/") || strings.Contains(line, "/testing/") {
					continue
				}
				if i := strings.LastIndex(line, " +0x"); i > 0 {
					line = line[:i]
				}
				where = append(where, line)
				if len(where) == 4 {
					break
				}
			}
			panicked = fmt.Sprintf("%v\n        at %s", p, strings.Join(where, "\n        at "))
		}
	}()
	fn()
	return nil
}
