package state

import (
	"context"
	"testing"

	"github.com/oasisprotocol/oasis-core/go/common/crypto/signature"
	memorySigner "github.com/oasisprotocol/oasis-core/go/common/crypto/signature/signers/memory"
	"github.com/oasisprotocol/oasis-core/go/common/node"
	abciAPI "github.com/oasisprotocol/oasis-core/go/consensus/cometbft/api"
)

// Finding F2: a node update in which a key moves to another role
// (new P2P key == old TLS key) must keep the node indexed under every current key.
func TestVerifF2SetNodeKeyMovesRole(t *testing.T) {
	appState := abciAPI.NewMockApplicationState(&abciAPI.MockApplicationStateConfig{})
	ctx := appState.NewContext(abciAPI.ContextBeginBlock)
	defer ctx.Close()
	st := NewMutableState(ctx.State())

	key := func(name string) signature.PublicKey {
		return memorySigner.NewTestSigner("verif F2 " + name).Public()
	}
	old := &node.Node{ID: key("id"), EntityID: key("entity")}
	old.Consensus.ID, old.P2P.ID, old.VRF.ID, old.TLS.PubKey = key("cons"), key("p2p"), key("vrf"), key("tls")
	if err := st.SetNode(context.Background(), nil, old, &node.MultiSignedNode{}); err != nil {
		t.Fatal(err)
	}
	upd := *old
	upd.P2P.ID = old.TLS.PubKey // the old TLS key becomes the P2P key
	upd.TLS.PubKey = key("tls2")
	if err := st.SetNode(context.Background(), old, &upd, &node.MultiSignedNode{}); err != nil {
		t.Fatal(err)
	}
	for name, k := range map[string]signature.PublicKey{"consensus": upd.Consensus.ID, "p2p": upd.P2P.ID, "vrf": upd.VRF.ID, "tls": upd.TLS.PubKey} {
		rawID, err := st.ms.Get(context.Background(), keyMapKeyFmt.Encode(&k))
		if err != nil {
			t.Fatal(err)
		}
		if rawID == nil {
			t.Fatalf("node is not indexed under its current %s key", name)
		}
	}
}
