package pathbadger

import (
	"context"
	"fmt"
	"testing"

	"github.com/stretchr/testify/require"

	"github.com/oasisprotocol/oasis-core/go/storage/mkvs"
	"github.com/oasisprotocol/oasis-core/go/storage/mkvs/node"
)

// A tree opened on the SECOND candidate root of a not-yet-finalized version (pending sequence
// number 1), and a tree built on top of it in the next version, must read that root's own contents.
func TestBaselinePendingSecondCandidate(t *testing.T) {
	require := require.New(t)
	ctx := context.Background()

	ndb, err := New(obs3Cfg)
	require.NoError(err, "New")
	defer ndb.Close()

	base := map[string]string{}
	for i := 0; i < 20; i++ {
		base[fmt.Sprintf("key %02d", i)] = fmt.Sprintf("base %02d", i)
	}
	r1 := obs3Commit(ctx, require, ndb, obs3EmptyRoot(1, node.RootTypeState), 1, base)
	require.NoError(ndb.Finalize([]node.Root{r1}), "Finalize v1")

	// Two candidates for version 2 on the same parent.
	a := map[string]string{"key 03": "A 03", "key 11": "A 11", "only A": "a"}
	b := map[string]string{"key 03": "B 03", "key 11": "B 11", "only B": "b"}
	rA := obs3Commit(ctx, require, ndb, r1, 2, a)
	rB := obs3Commit(ctx, require, ndb, r1, 2, b)

	check := func(root node.Root, want map[string]string, msg string) {
		got, rerr := obs3ReadAll(ctx, ndb, root)
		require.NoError(rerr, msg)
		require.Equal(want, got, msg)
	}
	check(rA, obs3Merge(base, a), "candidate A, pending")
	check(rB, obs3Merge(base, b), "candidate B, pending")

	// Build version 3 on top of the still pending candidate B (the runtime executes the next round
	// on its own result before the previous round is finalized).
	c := map[string]string{"key 05": "C 05"}
	rC := obs3Commit(ctx, require, ndb, rB, 3, c)
	check(rC, obs3Merge(obs3Merge(base, b), c), "version 3 built on pending candidate B")

	// Point reads through a fresh tree on B.
	tree := mkvs.NewWithRoot(nil, ndb, rB)
	defer tree.Close()
	v, err := tree.Get(ctx, []byte("key 03"))
	require.NoError(err)
	require.Equal("B 03", string(v))

	require.NoError(ndb.Finalize([]node.Root{rB}), "Finalize v2 with B")
	check(rB, obs3Merge(base, b), "candidate B, finalized")
	check(rC, obs3Merge(obs3Merge(base, b), c), "version 3 after finalizing B")
}
