package txpool

import (
	"testing"

	"github.com/oasisprotocol/oasis-core/go/common/crypto/hash"
)

// Finding F5: a transaction that becomes the sender's head through forward()
// must be scheduled by the next pass.
func TestVerifF5ForwardMakesHeadSchedulable(t *testing.T) {
	s := newMainQueueScheduler(10)
	mk := func(seq uint64) *mainQueueTransaction {
		raw := []byte{byte(seq)}
		return &mainQueueTransaction{meta: &TxQueueMeta{raw: raw, hash: hash.NewFromBytes(raw)}, sender: "a", seq: seq, priority: 1, seqHeapIndex: -1, minHeapIndex: -1, maxHeapIndex: -1}
	}
	if err := s.add(mk(6), 5); err != nil {
		t.Fatal(err)
	}
	s.forward("a", 6)
	s.reset()
	if got := s.schedule(10); len(got) != 1 {
		t.Fatalf("expected the seq-6 transaction to be scheduled, got %d transactions", len(got))
	}
}
