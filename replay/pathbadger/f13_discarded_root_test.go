package pathbadger

import (
	"context"
	"fmt"
	"sort"
	"testing"

	"github.com/stretchr/testify/require"

	"github.com/oasisprotocol/oasis-core/go/common"
	"github.com/oasisprotocol/oasis-core/go/storage/mkvs"
	"github.com/oasisprotocol/oasis-core/go/storage/mkvs/db/api"
	"github.com/oasisprotocol/oasis-core/go/storage/mkvs/node"
)

var (
	obs3Ns = common.NewTestNamespaceFromSeed([]byte("pathbadger obs3 test ns"), 0)

	obs3Cfg = &api.Config{
		Namespace:    obs3Ns,
		MaxCacheSize: 16 * 1024 * 1024,
		NoFsync:      true,
		MemoryOnly:   true,
	}
)

func obs3EmptyRoot(version uint64, typ node.RootType) node.Root {
	r := node.Root{Namespace: obs3Ns, Version: version, Type: typ}
	r.Hash.Empty()
	return r
}

// obs3Commit applies kvs on top of prev and commits into version (the way storage Apply does).
func obs3Commit(
	ctx context.Context,
	require *require.Assertions,
	ndb api.NodeDB,
	prev node.Root,
	version uint64,
	kvs map[string]string,
) node.Root {
	tree := mkvs.NewWithRoot(nil, ndb, prev)
	defer tree.Close()
	keys := make([]string, 0, len(kvs))
	for k := range kvs {
		keys = append(keys, k)
	}
	sort.Strings(keys)
	for _, k := range keys {
		require.NoError(tree.Insert(ctx, []byte(k), []byte(kvs[k])), "Insert")
	}
	_, h, err := tree.Commit(ctx, obs3Ns, version)
	require.NoError(err, "Commit")
	return node.Root{Namespace: obs3Ns, Version: version, Type: prev.Type, Hash: h}
}

// obs3ReadAll reads every key of the root via a fresh tree. It returns an error if any part of
// the root is unreadable, otherwise the full contents.
func obs3ReadAll(ctx context.Context, ndb api.NodeDB, root node.Root) (map[string]string, error) {
	tree := mkvs.NewWithRoot(nil, ndb, root)
	defer tree.Close()

	it := tree.NewIterator(ctx)
	defer it.Close()

	out := make(map[string]string)
	for it.Rewind(); it.Valid(); it.Next() {
		out[string(it.Key())] = string(it.Value())
	}
	if err := it.Err(); err != nil {
		return nil, err
	}
	return out, nil
}

func obs3Merge(a, b map[string]string) map[string]string {
	out := make(map[string]string)
	for k, v := range a {
		out[k] = v
	}
	for k, v := range b {
		out[k] = v
	}
	return out
}

// obs3CheckDiscarded checks the property for a root that was NOT finalized: it is afterwards
// either reported absent, or still readable with exactly its own contents.
func obs3CheckDiscarded(
	ctx context.Context,
	t *testing.T,
	ndb api.NodeDB,
	root node.Root,
	own map[string]string,
	msg string,
) {
	has := ndb.HasRoot(root)
	roots, err := ndb.GetRootsForVersion(root.Version)
	require.NoError(t, err, "GetRootsForVersion")
	var listed bool
	for _, r := range roots {
		if r.Equal(&root) {
			listed = true
		}
	}

	got, rerr := obs3ReadAll(ctx, ndb, root)
	t.Logf("%s: HasRoot=%v listedInGetRootsForVersion=%v readErr=%v contents=%v", msg, has, listed, rerr, got)

	if !has && !listed {
		return // Reported absent: fine.
	}
	// The database claims to have the root, so it must be readable with exactly its own contents.
	require.NoError(t, rerr, "%s: database claims to have discarded root (HasRoot=%v, listed=%v) but it cannot be read", msg, has, listed)
	require.Equal(t, own, got,
		fmt.Sprintf("%s: database claims to have discarded root (HasRoot=%v, listed=%v) but returns contents that are not its own", msg, has, listed))
}

// Suspicion 3: Finalize never deletes the root nodes of discarded candidate roots, so HasRoot and
// GetRootsForVersion still report them although their nodes were removed or replaced.
//
// Case A: the first committed candidate (seqNo 0) is discarded, the second (seqNo 1) is finalized.
func TestObs3DiscardedFirstCandidate(t *testing.T) {
	require := require.New(t)
	ctx := context.Background()

	ndb, err := New(obs3Cfg)
	require.NoError(err, "New")
	defer ndb.Close()

	baseKvs := map[string]string{"a": "a1", "b": "b1", "c": "c1", "d": "d1"}
	base := obs3Commit(ctx, require, ndb, obs3EmptyRoot(1, node.RootTypeState), 1, baseKvs)
	require.NoError(ndb.Finalize([]node.Root{base}), "Finalize(1)")

	// Two competing candidates for version 2, both derived from the finalized root of version 1.
	updA := map[string]string{"a": "A-discarded", "e": "A-only"}
	updB := map[string]string{"a": "B-final", "f": "B-only"}
	candA := obs3Commit(ctx, require, ndb, base, 2, updA) // seqNo 0
	candB := obs3Commit(ctx, require, ndb, base, 2, updB) // seqNo 1
	kvsA := obs3Merge(baseKvs, updA)
	kvsB := obs3Merge(baseKvs, updB)

	// Before finalization both are readable with their own contents.
	got, err := obs3ReadAll(ctx, ndb, candA)
	require.NoError(err)
	require.Equal(kvsA, got, "candidate A before finalize")
	got, err = obs3ReadAll(ctx, ndb, candB)
	require.NoError(err)
	require.Equal(kvsB, got, "candidate B before finalize")

	require.NoError(ndb.Finalize([]node.Root{candB}), "Finalize(2)")

	// The finalized root is completely readable.
	got, err = obs3ReadAll(ctx, ndb, candB)
	require.NoError(err, "finalized root must be readable")
	require.Equal(kvsB, got, "finalized root contents")

	obs3CheckDiscarded(ctx, t, ndb, candA, kvsA, "discarded candidate A (seqNo 0)")

	roots, err := ndb.GetRootsForVersion(2)
	require.NoError(err)
	require.Equal([]node.Root{candB}, roots, "GetRootsForVersion(2) must list exactly the finalized root")
}

// Case B: the first committed candidate (seqNo 0) is finalized, the second (seqNo 1) is discarded.
func TestObs3DiscardedSecondCandidate(t *testing.T) {
	require := require.New(t)
	ctx := context.Background()

	ndb, err := New(obs3Cfg)
	require.NoError(err, "New")
	defer ndb.Close()

	baseKvs := map[string]string{"a": "a1", "b": "b1", "c": "c1", "d": "d1"}
	base := obs3Commit(ctx, require, ndb, obs3EmptyRoot(1, node.RootTypeState), 1, baseKvs)
	require.NoError(ndb.Finalize([]node.Root{base}), "Finalize(1)")

	updA := map[string]string{"a": "A-final", "e": "A-only"}
	updB := map[string]string{"a": "B-discarded", "f": "B-only"}
	candA := obs3Commit(ctx, require, ndb, base, 2, updA) // seqNo 0
	candB := obs3Commit(ctx, require, ndb, base, 2, updB) // seqNo 1
	kvsA := obs3Merge(baseKvs, updA)
	kvsB := obs3Merge(baseKvs, updB)

	require.NoError(ndb.Finalize([]node.Root{candA}), "Finalize(2)")

	got, err := obs3ReadAll(ctx, ndb, candA)
	require.NoError(err, "finalized root must be readable")
	require.Equal(kvsA, got, "finalized root contents")

	obs3CheckDiscarded(ctx, t, ndb, candB, kvsB, "discarded candidate B (seqNo 1)")

	roots, err := ndb.GetRootsForVersion(2)
	require.NoError(err)
	require.Equal([]node.Root{candA}, roots, "GetRootsForVersion(2) must list exactly the finalized root")
}
