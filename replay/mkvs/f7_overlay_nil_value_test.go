package mkvs

import (
	"context"
	"testing"

	"github.com/oasisprotocol/oasis-core/go/storage/mkvs/node"
)

func TestF7NilValueOverlay(t *testing.T) {
	ctx := context.Background()
	tree := New(nil, nil, node.RootTypeState)
	defer tree.Close()

	// Reference behaviour of the tree itself: a nil value is the empty byte string.
	if err := tree.Insert(ctx, []byte("t"), nil); err != nil {
		t.Fatal(err)
	}
	v, _ := tree.Get(ctx, []byte("t"))
	if v == nil {
		t.Fatalf("tree: key inserted with an empty value reads as absent")
	}

	ov := NewOverlay(tree)
	if err := ov.Insert(ctx, []byte("k"), nil); err != nil {
		t.Fatal(err)
	}
	v, err := ov.Get(ctx, []byte("k"))
	if err != nil {
		t.Fatal(err)
	}
	if v == nil {
		t.Errorf("overlay: key inserted with an empty value reads as absent before commit")
	}
	if _, err = ov.Commit(ctx); err != nil {
		t.Fatal(err)
	}
	v2, _ := tree.Get(ctx, []byte("k"))
	if (v == nil) != (v2 == nil) {
		t.Errorf("get changed its answer across overlay commit: before commit present=%v, after commit present=%v", v != nil, v2 != nil)
	}
}
