package mkvs

import (
	"context"
	"fmt"
	"testing"

	"github.com/stretchr/testify/require"

	"github.com/oasisprotocol/oasis-core/go/storage/mkvs/node"
)

// TestBaselineLockedEvictionDropsChildren reproduces a defect of the ORIGINAL code: a reader with a
// small node cache that syncs from a remote tree answers "absent" (nil, nil) for a present key after
// a prefetching iteration. cache.tryRemoveNode removes an internal node's parts one after the other
// and sets n.LeafNode / n.Left to nil as it goes; when a LATER part is the locked pointer the
// removal is abandoned with errRemoveLocked, the node stays in the cache - with the parts already
// detached - and every later read takes the detached parts for empty subtrees.
func TestBaselineLockedEvictionDropsChildren(t *testing.T) {
	ctx := context.Background()

	full := New(nil, nil, node.RootTypeState)
	defer full.Close()
	const n = 1000
	for i := 0; i < n; i++ {
		require.NoError(t, full.Insert(ctx, []byte(fmt.Sprintf("seed key %d", i)), []byte(fmt.Sprintf("value %d", i))))
	}
	_, rootHash, err := full.Commit(ctx, testNs, 0)
	require.NoError(t, err)
	root := node.Root{Namespace: testNs, Version: 0, Type: node.RootTypeState, Hash: rootHash}

	for _, cfg := range []struct{ nodes, prefetch int }{{40, 50}, {30, 25}, {40, 100}} {
		t.Run(fmt.Sprintf("cap%d_prefetch%d", cfg.nodes, cfg.prefetch), func(t *testing.T) {
			reader := NewWithRoot(full, nil, root, Capacity(uint64(cfg.nodes), 0))
			defer reader.Close()

			it := reader.NewIterator(ctx, IteratorPrefetch(uint16(cfg.prefetch)))
			cnt := 0
			for it.Rewind(); it.Valid(); it.Next() {
				cnt++
			}
			require.NoError(t, it.Err())
			it.Close()
			require.Equal(t, n, cnt, "iteration must yield every key")

			var missing []string
			for i := 0; i < n; i++ {
				k := []byte(fmt.Sprintf("seed key %d", i))
				v, err := reader.Get(ctx, k)
				require.NoError(t, err)
				if v == nil {
					missing = append(missing, string(k))
				} else {
					require.Equal(t, fmt.Sprintf("value %d", i), string(v))
				}
			}
			require.Empty(t, missing, "present keys read as absent (no error)")
		})
	}
}
