package mkvs

import (
	"context"
	"testing"

	"github.com/stretchr/testify/require"

	"github.com/oasisprotocol/oasis-core/go/storage/mkvs/node"
)

// The nil key and the empty key are the same key of the map (a key is a byte string; both have
// length zero): what was inserted under one must be found, overwritten and removed under the other.
func TestBaselineNilVersusEmptyKey(t *testing.T) {
	ctx := context.Background()
	for _, commit := range []bool{false, true} {
		func() {
			defer func() {
				if r := recover(); r != nil {
					t.Errorf("commit=%v: panic: %v", commit, r)
				}
			}()
			tree := New(nil, nil, node.RootTypeState)
			defer tree.Close()
			require.NoError(t, tree.Insert(ctx, []byte("other"), []byte("x")))
			require.NoError(t, tree.Insert(ctx, nil, []byte("v1")))
			if commit {
				_, _, err := tree.Commit(ctx, testNs, 0)
				require.NoError(t, err)
			}
			v, err := tree.Get(ctx, []byte{})
			require.NoError(t, err)
			if string(v) != "v1" {
				t.Errorf("commit=%v: Get(empty) after Insert(nil) = %q, want v1", commit, v)
			}
			require.NoError(t, tree.Insert(ctx, []byte{}, []byte("v2")))
			v, err = tree.Get(ctx, nil)
			require.NoError(t, err)
			if string(v) != "v2" {
				t.Errorf("commit=%v: Get(nil) after Insert(empty) = %q, want v2", commit, v)
			}
			require.NoError(t, tree.Remove(ctx, []byte{}))
			v, err = tree.Get(ctx, nil)
			require.NoError(t, err)
			if v != nil {
				t.Errorf("commit=%v: Get(nil) after Remove(empty) = %q, want nil", commit, v)
			}
		}()
	}
}
