package mkvs

import (
	"context"
	"fmt"
	"sort"
	"testing"

	"github.com/stretchr/testify/require"

	"github.com/oasisprotocol/oasis-core/go/storage/mkvs/node"
)

// f17CancelCtx reports cancellation after its Err method has been consulted the given number of
// times: a cancellation that arrives while an operation is already descending the tree.
type f17CancelCtx struct {
	context.Context
	remaining int
}

func (c *f17CancelCtx) Err() error {
	if c.remaining <= 0 {
		return context.Canceled
	}
	c.remaining--
	return nil
}

// TestBaselineFailedRemoveDetachesSubtree: on the ORIGINAL code a Remove that fails half way down the
// tree (its context is cancelled during the descent; the same happens when a node on the path cannot
// be fetched) returns an error - and every internal node it passed has lost its branch toward the
// key: doRemove assigns the (nil) pointer returned by the failed recursive call to n.LeafNode /
// n.Left / n.Right before it looks at the error. The nodes stay clean, so nothing is committed, but
// until they are evicted every key below them reads as absent.
func TestBaselineFailedRemoveDetachesSubtree(t *testing.T) {
	model := map[string]string{}
	for i := 0; i < 24; i++ {
		model[fmt.Sprintf("acct/%02d", i)] = fmt.Sprintf("balance %d", i)
	}
	model["acct/"] = "dir"
	model["acct/1"] = "one"
	keys := make([]string, 0, len(model))
	for k := range model {
		keys = append(keys, k)
	}
	sort.Strings(keys)

	bad := 0
	for _, victim := range []string{"acct/07", "acct/1", "acct/23"} {
		for after := 1; after < 64; after++ {
			tree := New(nil, nil, node.RootTypeState)
			for k, v := range model {
				require.NoError(t, tree.Insert(context.Background(), []byte(k), []byte(v)))
			}
			_, _, err := tree.Commit(context.Background(), testNs, 0)
			require.NoError(t, err)

			ctx := &f17CancelCtx{Context: context.Background(), remaining: after}
			err = tree.Remove(ctx, []byte(victim))
			if err == nil {
				tree.Close()
				break
			}
			require.ErrorIs(t, err, context.Canceled)

			// The failed removal must have left the map as it was.
			for _, k := range keys {
				v, gerr := tree.Get(context.Background(), []byte(k))
				require.NoError(t, gerr)
				if string(v) != model[k] {
					bad++
					t.Errorf("after Remove(%q) cancelled at level %d: Get(%q) = %q, want %q", victim, after, k, v, model[k])
					break
				}
			}
			tree.Close()
		}
	}
	require.Zero(t, bad, "a failed Remove changed what the tree answers")
}
