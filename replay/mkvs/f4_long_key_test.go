package mkvs

// Replay for finding F4 (property C03): node.Depth is a uint16, Key.BitLength
// computes Depth(len(k)*8), which wraps for keys of 8192 bytes or more. The
// tree's public entry points accept keys of any length: inserting the empty
// key and then a key of 8192 bytes panics inside the tree instead of storing
// the pair (an ordered map from byte strings to byte strings has no such
// limit; a received write log can carry such a key into ApplyWriteLog).
//
// Run (from /repo/go): go test -overlay <overlay.json> -vet=off -run TestF4 ./storage/mkvs/

import (
	"bytes"
	"context"
	"testing"

	"github.com/oasisprotocol/oasis-core/go/storage/mkvs/node"
)

func TestF4LongKeyBreaksTheMap(t *testing.T) {
	ctx := context.Background()
	tree := New(nil, nil, node.RootTypeState)
	defer tree.Close()

	if err := tree.Insert(ctx, []byte{}, []byte("empty")); err != nil {
		t.Fatalf("insert of the empty key: %v", err)
	}
	long := bytes.Repeat([]byte{0x55}, 8192)
	func() {
		defer func() {
			if r := recover(); r != nil {
				t.Fatalf("insert of an 8192-byte key panicked: %v", r)
			}
		}()
		if err := tree.Insert(ctx, long, []byte("long")); err != nil {
			// A clean rejection would be acceptable behaviour for a bounded key space.
			t.Logf("insert rejected: %v", err)
			return
		}
		v, err := tree.Get(ctx, long)
		if err != nil || string(v) != "long" {
			t.Fatalf("get after insert: value %q err %v (want \"long\")", v, err)
		}
		v, err = tree.Get(ctx, []byte{})
		if err != nil || string(v) != "empty" {
			t.Fatalf("the empty key was damaged: value %q err %v", v, err)
		}
	}()
}
