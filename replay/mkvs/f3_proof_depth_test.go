package mkvs

import (
	"bytes"
	"context"
	"testing"

	"github.com/oasisprotocol/oasis-core/go/common"
	"github.com/oasisprotocol/oasis-core/go/storage/mkvs/node"
	"github.com/oasisprotocol/oasis-core/go/storage/mkvs/syncer"
)

// Finding F3: an honest proof for a key below 128 levels of nested prefixes is
// rejected by the verifier ("max proof depth exceeded").
func TestVerifF3HonestDeepProofVerifies(t *testing.T) {
	ctx := context.Background()
	tree := New(nil, nil, node.RootTypeState)
	var keys [][]byte
	for i := 1; i <= 140; i++ {
		k := bytes.Repeat([]byte{0xaa}, i)
		keys = append(keys, k)
		if err := tree.Insert(ctx, k, []byte("v")); err != nil {
			t.Fatal(err)
		}
	}
	var ns common.Namespace
	_, rootHash, err := tree.Commit(ctx, ns, 0)
	if err != nil {
		t.Fatal(err)
	}
	for _, version := range []uint16{0, 1} {
		resp, err := tree.SyncGet(ctx, &syncer.GetRequest{
			Tree: syncer.TreeID{
				Root:     node.Root{Namespace: ns, Version: 0, Hash: rootHash, Type: node.RootTypeState},
				Position: rootHash,
			},
			Key:          keys[len(keys)-1],
			ProofVersion: version,
		})
		if err != nil {
			t.Fatal(err)
		}
		var pv syncer.ProofVerifier
		if _, err = pv.VerifyProof(ctx, rootHash, &resp.Proof); err != nil {
			t.Fatalf("VERIF-REPLAY-FAIL: honest proof (version %d) for the deepest key is rejected: %v", version, err)
		}
	}
}
