package mkvs

import (
	"context"
	"fmt"
	"os"
	"testing"

	"github.com/stretchr/testify/assert"
	"github.com/stretchr/testify/require"

	"github.com/oasisprotocol/oasis-core/go/common/crypto/hash"
	db "github.com/oasisprotocol/oasis-core/go/storage/mkvs/db/api"
	badgerDb "github.com/oasisprotocol/oasis-core/go/storage/mkvs/db/badger"
	pathBadgerDb "github.com/oasisprotocol/oasis-core/go/storage/mkvs/db/pathbadger"
	"github.com/oasisprotocol/oasis-core/go/storage/mkvs/node"
)

// TestBaselineEvictedLeafUnderDirtyNode reproduces a defect present in the ORIGINAL code (no seed
// involved): when the leaf that is attached to an internal node (a key that is a prefix of other
// keys) gets evicted from the value cache while the internal node itself is dirty, the next
// dereference of the internal node yields "no node" and the complete subtree disappears.
func TestBaselineEvictedLeafUnderDirtyNode(t *testing.T) {
	type factory func(dir string) (db.NodeDB, error)
	backends := []struct {
		name string
		new  factory
	}{
		{"badger", func(dir string) (db.NodeDB, error) {
			return badgerDb.New(&db.Config{DB: dir, NoFsync: true, Namespace: testNs, MaxCacheSize: 16 * 1024 * 1024})
		}},
		{"pathbadger", func(dir string) (db.NodeDB, error) {
			return pathBadgerDb.New(&db.Config{DB: dir, NoFsync: true, Namespace: testNs, MaxCacheSize: 16 * 1024 * 1024})
		}},
	}

	const numFillers = 8
	filler := func(i int) ([]byte, []byte) {
		return []byte(fmt.Sprintf("z%02d", i)), []byte(fmt.Sprintf("value-%02d", i))
	}

	run := func(t *testing.T, ndb db.NodeDB, splitLeaf bool, opts ...Option) {
		ctx := context.Background()

		tree := New(nil, ndb, node.RootTypeState, opts...)
		defer tree.Close()

		// Version 0: some filler keys. With the small value cache only the last few leaves stay
		// cached after the commit, the others must later be re-fetched from the node database.
		for i := 0; i < numFillers; i++ {
			k, v := filler(i)
			require.NoError(t, tree.Insert(ctx, k, v), "Insert")
		}
		_, _, err := tree.Commit(ctx, testNs, 0)
		require.NoError(t, err, "Commit")

		// Version 1: "a" is a prefix of "ab", so "a" is stored as the LeafNode of the internal node
		// whose child is "ab". The commit makes both leaves clean and puts them on the leaf LRU list.
		//
		// Variant splitLeaf: only "a" is committed (as a plain leaf). The uncommitted inserts of "ab"
		// and "ac" then create a NEW (dirty) internal node to which the existing clean leaf pointer
		// of "a" gets attached while it remains on the leaf LRU list.
		require.NoError(t, tree.Insert(ctx, []byte("a"), []byte("va")), "Insert")
		if !splitLeaf {
			require.NoError(t, tree.Insert(ctx, []byte("ab"), []byte("vab")), "Insert")
		}
		_, _, err = tree.Commit(ctx, testNs, 1)
		require.NoError(t, err, "Commit")

		// Uncommitted insert(s) below the same internal node: the internal node (and the path to the
		// root) becomes dirty, its attached leaf "a" stays clean and evictable.
		if splitLeaf {
			require.NoError(t, tree.Insert(ctx, []byte("ab"), []byte("vab")), "Insert")
		}
		require.NoError(t, tree.Insert(ctx, []byte("ac"), []byte("vac")), "Insert")

		// Reading the filler keys re-fetches their leaves from the node database, which evicts the
		// least recently used leaves - eventually the one of "a".
		// (Newest first, so that a still cached filler leaf and not "a" is the most recently used one.)
		for i := numFillers - 1; i >= 0; i-- {
			k, v := filler(i)
			value, err := tree.Get(ctx, k)
			require.NoError(t, err, "Get")
			require.Equal(t, v, value, "filler value")
		}

		// Ordered-map view: nothing but the insert of "ac" happened since the last commit.
		for _, kv := range [][2]string{{"a", "va"}, {"ab", "vab"}} {
			value, err := tree.Get(ctx, []byte(kv[0]))
			assert.NoError(t, err, "Get(%s)", kv[0])
			assert.Equal(t, []byte(kv[1]), value, "Get(%s)", kv[0])
		}

		var keys []string
		it := tree.NewIterator(ctx)
		for it.Rewind(); it.Valid(); it.Next() {
			keys = append(keys, string(it.Key()))
		}
		assert.NoError(t, it.Err(), "iterator")
		it.Close()
		expected := []string{"a", "ab", "ac"}
		for i := 0; i < numFillers; i++ {
			k, _ := filler(i)
			expected = append(expected, string(k))
		}
		assert.Equal(t, expected, keys, "iteration over the uncommitted tree")

		// Committing the tree in this state (recover so that the other back end still runs).
		rootHash, err := func() (h hash.Hash, err error) {
			defer func() {
				if r := recover(); r != nil {
					err = fmt.Errorf("Commit panicked: %v", r)
				}
			}()
			_, h, err = tree.Commit(ctx, testNs, 2)
			return
		}()
		require.NoError(t, err, "Commit")
		reopened := NewWithRoot(nil, ndb, node.Root{Namespace: testNs, Version: 2, Type: node.RootTypeState, Hash: rootHash})
		defer reopened.Close()
		for _, kv := range [][2]string{{"a", "va"}, {"ab", "vab"}, {"ac", "vac"}} {
			value, err := reopened.Get(ctx, []byte(kv[0]))
			assert.NoError(t, err, "reopened Get(%s)", kv[0])
			assert.Equal(t, []byte(kv[1]), value, "reopened Get(%s)", kv[0])
		}
	}

	for _, be := range backends {
		for _, variant := range []struct {
			name      string
			splitLeaf bool
		}{
			{"DirtiedNode", false},
			{"NewNode", true},
		} {
			// Room for three leaves (each of these leaves accounts for a bit under 100 bytes).
			t.Run(be.name+"/"+variant.name+"/SmallValueCache", func(t *testing.T) {
				dir, err := os.MkdirTemp("", "mkvs.baseline."+be.name)
				require.NoError(t, err, "MkdirTemp")
				defer os.RemoveAll(dir)
				ndb, err := be.new(dir)
				require.NoError(t, err, "New")
				defer ndb.Close()

				run(t, ndb, variant.splitLeaf, Capacity(0, 310))
			})
			// Control: the very same history with the default cache size behaves correctly.
			t.Run(be.name+"/"+variant.name+"/DefaultCache", func(t *testing.T) {
				dir, err := os.MkdirTemp("", "mkvs.baseline."+be.name)
				require.NoError(t, err, "MkdirTemp")
				defer os.RemoveAll(dir)
				ndb, err := be.new(dir)
				require.NoError(t, err, "New")
				defer ndb.Close()

				run(t, ndb, variant.splitLeaf)
			})
		}
	}
}
