package staking

// Replay for finding F6 (property C10): a governance parameter change that
// passes every sanity check (fee split weights vote = next-propose = 0, propose
// > 0) makes the next block's BeginBlock fail when the block in which the
// proposal closed carried fees: disburseFeesVQ divides by the sum of the two
// (now zero) weights and returns an error; the mux turns any BeginBlock error
// into a panic on every node.
//
// Run (from /repo/go):  go test -overlay <overlay.json> -vet=off -run TestF6 ./consensus/cometbft/apps/staking/

import (
	"testing"

	"github.com/stretchr/testify/require"

	"github.com/oasisprotocol/oasis-core/go/common/cbor"
	"github.com/oasisprotocol/oasis-core/go/common/crypto/signature"
	memorySigner "github.com/oasisprotocol/oasis-core/go/common/crypto/signature/signers/memory"
	"github.com/oasisprotocol/oasis-core/go/common/quantity"
	abciAPI "github.com/oasisprotocol/oasis-core/go/consensus/cometbft/api"
	stakingState "github.com/oasisprotocol/oasis-core/go/consensus/cometbft/apps/staking/state"
	governance "github.com/oasisprotocol/oasis-core/go/governance/api"
	staking "github.com/oasisprotocol/oasis-core/go/staking/api"
)

func TestF6FeeSplitChangeHaltsBeginBlock(t *testing.T) {
	require := require.New(t)

	appState := abciAPI.NewMockApplicationState(&abciAPI.MockApplicationStateConfig{})
	app := &Application{state: appState}

	setupCtx := appState.NewContext(abciAPI.ContextInitChain)
	defer setupCtx.Close()
	s := stakingState.NewMutableState(setupCtx.State())

	params := &staking.ConsensusParameters{
		Thresholds: map[staking.ThresholdKind]quantity.Quantity{},
		FeeSplitWeightPropose:     *quantity.NewFromUint64(2),
		FeeSplitWeightVote:        *quantity.NewFromUint64(1),
		FeeSplitWeightNextPropose: *quantity.NewFromUint64(1),
	}
	for _, k := range staking.ThresholdKinds {
		params.Thresholds[k] = *quantity.NewFromUint64(0)
	}
	require.NoError(params.SanityCheck(), "initial parameters are sane")
	require.NoError(s.SetConsensusParameters(setupCtx, params))

	proposerPk := memorySigner.NewTestSigner("f6 proposer").Public()
	voterPk := memorySigner.NewTestSigner("f6 voter").Public()
	require.NoError(s.SetCommonPool(setupCtx, quantity.NewQuantity()))
	require.NoError(s.SetLastBlockFees(setupCtx, quantity.NewQuantity()))

	// Block N (the block in which the proposal closes): 100 base units of fees were paid.
	// 100_staking.EndBlock runs before 300_governance.EndBlock, so the fee split is still 2:1:1.
	{
		ctx := appState.NewContext(abciAPI.ContextEndBlock)
		defer ctx.Close()
		st := stakingState.NewMutableState(ctx.State())
		require.NoError(app.disburseFeesP(ctx, st, &proposerPk, quantity.NewFromUint64(100)))
		persisted, err := st.LastBlockFees(ctx)
		require.NoError(err)
		require.EqualValues(0, persisted.Cmp(quantity.NewFromUint64(50)), "voters' and next proposer's share is carried over")

		// 300_governance.EndBlock: the accepted proposal is applied through the real handler.
		zero := quantity.NewQuantity()
		changes := staking.ConsensusParameterChanges{
			FeeSplitWeightVote:        zero,
			FeeSplitWeightNextPropose: zero,
		}
		require.NoError(changes.SanityCheck(), "the change passes its sanity check")
		_, err = app.changeParameters(ctx, &governance.ChangeParametersProposal{
			Module:  staking.ModuleName,
			Changes: cbor.Marshal(changes),
		}, true)
		require.NoError(err, "the parameter change is accepted (all fees to the proposer)")
	}

	// Block N+1: BeginBlock of the staking application.
	{
		ctx := appState.NewContext(abciAPI.ContextBeginBlock)
		defer ctx.Close()
		st := stakingState.NewMutableState(ctx.State())
		err := app.disburseFeesVQ(ctx, st, &proposerPk, 1, []signature.PublicKey{voterPk})
		require.NoError(err, "BeginBlock must not fail (the mux panics on any BeginBlock error)")
	}
}
