package main

// Goal-directed instantiation of quantified assumptions.
//
// The goal of a query is (assert (not G)). Every universally quantified
// sub-formula of G in positive position is replaced by its body over fresh
// constants (proving the body for fresh constants proves the quantified
// formula), and every universally quantified sub-formula in positive position
// of an assumption A whose binder sorts match is ALSO asserted instantiated at
// those constants (A with the quantified sub-formula replaced by the instance
// is a consequence of A). The original assumptions stay. The result is
// equisatisfiable-or-weaker for refutation purposes: an "unsat" answer is a
// proof of the original goal. It removes the solver's need to find, by
// E-matching over long store/ite chains, the one instance that frame-style
// proofs ("the invariant of the other data structure still holds") need.

import (
	"fmt"
	"strings"
)

type skolem struct{ name, sort string }

func sxSubst(n *sx, m map[string]string) *sx {
	if n.isAtom() {
		if r, ok := m[n.atom]; ok {
			return &sx{atom: r}
		}
		return n
	}
	out := &sx{kids: make([]*sx, len(n.kids))}
	for i, k := range n.kids {
		out.kids[i] = sxSubst(k, m)
	}
	if len(out.kids) == 0 {
		out.kids = []*sx{}
	}
	return out
}

func sxHead(n *sx) string {
	if n.isAtom() || len(n.kids) == 0 || !n.kids[0].isAtom() {
		return ""
	}
	return n.kids[0].atom
}

// stripPattern: (! body :pattern ...) -> body
func stripPattern(n *sx) (*sx, bool) {
	if sxHead(n) == "!" && len(n.kids) >= 2 {
		return n.kids[1], true
	}
	return n, false
}

func binderList(n *sx) []skolem {
	var bs []skolem
	for _, b := range n.kids {
		if len(b.kids) == 2 && b.kids[0].isAtom() {
			bs = append(bs, skolem{b.kids[0].atom, b.kids[1].String()})
		}
	}
	return bs
}

// walkPos calls f on every universally quantified sub-formula in positive
// position; f returns the replacement (or nil to keep and not descend).
func walkPos(n *sx, pos bool, f func(q *sx) *sx) *sx {
	if n.isAtom() {
		return n
	}
	h := sxHead(n)
	switch h {
	case "forall":
		if pos && len(n.kids) == 3 {
			if r := f(n); r != nil {
				return r
			}
		}
		return n
	case "not":
		if len(n.kids) == 2 {
			return &sx{kids: []*sx{n.kids[0], walkPos(n.kids[1], !pos, f)}}
		}
	case "and", "or":
		out := &sx{kids: []*sx{n.kids[0]}}
		for _, k := range n.kids[1:] {
			out.kids = append(out.kids, walkPos(k, pos, f))
		}
		return out
	case "=>":
		out := &sx{kids: []*sx{n.kids[0]}}
		for i, k := range n.kids[1:] {
			if i == len(n.kids)-2 {
				out.kids = append(out.kids, walkPos(k, pos, f))
			} else {
				out.kids = append(out.kids, walkPos(k, !pos, f))
			}
		}
		return out
	}
	return n
}

func instQuery(text string, maxInst int) (string, bool) {
	lines := strings.Split(text, "\n")
	goalIdx := -1
	for i, l := range lines {
		if strings.HasPrefix(l, "(assert ") {
			goalIdx = i
		}
	}
	if goalIdx < 0 || !strings.HasPrefix(lines[goalIdx], "(assert (not ") || !strings.Contains(lines[goalIdx], "(forall ") {
		return "", false
	}
	gl := lines[goalIdx]
	g := parseSx(gl[len("(assert (not ") : len(gl)-2])
	nsk := 0
	var tuples [][]skolem
	var decls []string
	var skol func(q *sx) *sx
	skol = func(q *sx) *sx {
		bs := binderList(q.kids[1])
		body, _ := stripPattern(q.kids[2])
		m := map[string]string{}
		var tup []skolem
		for _, b := range bs {
			nsk++
			name := fmt.Sprintf("sk!g%d", nsk)
			m[b.name] = name
			tup = append(tup, skolem{name, b.sort})
			decls = append(decls, fmt.Sprintf("(declare-const %s %s)", name, b.sort))
		}
		tuples = append(tuples, tup)
		return walkPos(sxSubst(body, m), true, skol)
	}
	g2 := walkPos(g, true, skol)
	if len(tuples) == 0 {
		return "", false
	}
	bySort := map[string][]string{}
	for _, t := range tuples {
		for _, s := range t {
			bySort[s.sort] = append(bySort[s.sort], s.name)
		}
	}
	var extra []string
	for i, l := range lines {
		if i == goalIdx || !strings.HasPrefix(l, "(assert ") || !strings.Contains(l, "(forall ") || len(extra) >= maxInst {
			continue
		}
		a := parseSx(l[len("(assert ") : len(l)-1])
		// enumerate the positive quantified sub-formulas, instantiate one at a time
		nq := 0
		walkPos(a, true, func(q *sx) *sx { nq++; return nil })
		for qi := 0; qi < nq && len(extra) < maxInst; qi++ {
			var target *sx
			k := 0
			walkPos(a, true, func(q *sx) *sx {
				if k == qi {
					target = q
				}
				k++
				return nil
			})
			if target == nil {
				continue
			}
			if _, hasPat := stripPattern(target.kids[2]); hasPat {
				continue // engine axioms with their own triggers
			}
			bs := binderList(target.kids[1])
			var insts []map[string]string
			if len(bs) == 1 {
				for _, c := range bySort[bs[0].sort] {
					insts = append(insts, map[string]string{bs[0].name: c})
				}
			} else {
				for _, t := range tuples {
					if len(t) != len(bs) {
						continue
					}
					ok := true
					m := map[string]string{}
					for j := range bs {
						if t[j].sort != bs[j].sort {
							ok = false
						}
						m[bs[j].name] = t[j].name
					}
					if ok {
						insts = append(insts, m)
					}
				}
			}
			for _, m := range insts {
				if len(extra) >= maxInst {
					break
				}
				k = 0
				inst := walkPos(a, true, func(q *sx) *sx {
					k++
					if k-1 == qi {
						return sxSubst(q.kids[2], m)
					}
					return nil
				})
				extra = append(extra, "(assert "+inst.String()+")")
			}
		}
	}
	var b strings.Builder
	wroteDecl := false
	for i, l := range lines {
		if i == goalIdx {
			for _, x := range extra {
				b.WriteString(x)
				b.WriteByte('\n')
			}
			b.WriteString("(assert (not " + g2.String() + "))\n")
			continue
		}
		if !wroteDecl && strings.HasPrefix(l, "(assert ") {
			for _, d := range decls {
				b.WriteString(d)
				b.WriteByte('\n')
			}
			wroteDecl = true
		}
		b.WriteString(l)
		b.WriteByte('\n')
	}
	return b.String(), true
}
