package main

// Minimal s-expression utilities used to lambda-lift count() predicates.

import (
	"strings"
)

type sx struct {
	atom string
	kids []*sx
}

func parseSx(s string) *sx {
	pos := 0
	var parse func() *sx
	skip := func() {
		for pos < len(s) && (s[pos] == ' ' || s[pos] == '\n' || s[pos] == '\t') {
			pos++
		}
	}
	parse = func() *sx {
		skip()
		if pos >= len(s) {
			return &sx{}
		}
		if s[pos] == '(' {
			pos++
			n := &sx{}
			for {
				skip()
				if pos >= len(s) {
					return n
				}
				if s[pos] == ')' {
					pos++
					return n
				}
				n.kids = append(n.kids, parse())
			}
		}
		start := pos
		if s[pos] == '|' {
			pos++
			for pos < len(s) && s[pos] != '|' {
				pos++
			}
			pos++
		} else {
			for pos < len(s) && s[pos] != ' ' && s[pos] != '(' && s[pos] != ')' && s[pos] != '\n' {
				pos++
			}
		}
		return &sx{atom: s[start:pos]}
	}
	return parse()
}

func (n *sx) String() string {
	if n.kids == nil && n.atom != "" {
		return n.atom
	}
	var b strings.Builder
	b.WriteByte('(')
	for i, k := range n.kids {
		if i > 0 {
			b.WriteByte(' ')
		}
		b.WriteString(k.String())
	}
	b.WriteByte(')')
	return b.String()
}

func (n *sx) isAtom() bool { return n.kids == nil }

func isLiteralAtom(a string) bool {
	if a == "true" || a == "false" || a == "null" || a == "" {
		return true
	}
	c := a[0]
	return c >= '0' && c <= '9'
}

// sortOfSx infers the sort of an s-expression from the script's declarations.
func (s *Script) sortOfSx(n *sx, bound map[string]string) string {
	if n.isAtom() {
		a := n.atom
		if srt, ok := bound[a]; ok {
			return srt
		}
		if a == "true" || a == "false" {
			return sBool
		}
		if a == "null" {
			return sRef
		}
		if a != "" && a[0] >= '0' && a[0] <= '9' {
			if strings.Contains(a, ".") {
				return sReal
			}
			return sInt
		}
		if d, ok := s.decls[a]; ok {
			// (declare-const name sort)
			d = strings.TrimSuffix(strings.TrimPrefix(d, "(declare-const "+a+" "), ")")
			return d
		}
		return ""
	}
	if len(n.kids) == 0 {
		return ""
	}
	head := n.kids[0]
	if !head.isAtom() {
		// ((as const S) v)
		if len(head.kids) == 3 && head.kids[0].atom == "as" {
			return head.kids[2].String()
		}
		return ""
	}
	switch head.atom {
	case "select":
		as := s.sortOfSx(n.kids[1], bound)
		if strings.HasPrefix(as, "(Array ") {
			_, e := arrParts(as)
			return e
		}
		return ""
	case "store":
		return s.sortOfSx(n.kids[1], bound)
	case "ite":
		return s.sortOfSx(n.kids[2], bound)
	case "+", "-", "*", "div", "mod", "abs":
		return sInt
	case "and", "or", "not", "=", "<", "<=", ">", ">=", "=>", "distinct", "forall", "exists":
		return sBool
	case "!":
		return s.sortOfSx(n.kids[1], bound)
	}
	if d, ok := s.decls[head.atom]; ok {
		// (declare-fun name (args) ret) or (define-fun-rec name (...) ret body)
		if strings.HasPrefix(d, "(declare-fun ") {
			i := strings.LastIndex(d, ") ")
			if i >= 0 {
				return strings.TrimSuffix(d[i+2:], ")")
			}
		}
		if strings.HasPrefix(d, "(define-fun-rec ") {
			return sInt
		}
	}
	return ""
}

// containsAny reports whether the tree mentions one of the given atoms.
func (n *sx) containsAny(names map[string]bool) bool {
	if n.isAtom() {
		return names[n.atom]
	}
	for _, k := range n.kids {
		if k.containsAny(names) {
			return true
		}
	}
	return false
}

// innerBinders collects variables bound by quantifiers inside the tree.
func (n *sx) innerBinders(out map[string]bool) {
	if n.isAtom() || len(n.kids) == 0 {
		return
	}
	if h := n.kids[0]; h.isAtom() && (h.atom == "forall" || h.atom == "exists") && len(n.kids) >= 2 {
		for _, b := range n.kids[1].kids {
			if len(b.kids) >= 1 {
				out[b.kids[0].atom] = true
			}
		}
	}
	for _, k := range n.kids {
		k.innerBinders(out)
	}
}
