package main

// Trusted models of library functions (listed in evidence as trusted base).

import (
	"fmt"
	"go/ast"
	"go/types"
)

type libModel func(fv *FV, e *Env, x *ast.CallExpr, recv *Value, args []Value) (Value, bool)

var libModels = map[string]libModel{}

// libModelDocs describes each model in the trusted base.
var libModelDocs = map[string]string{}

const ordDetComp = "ORD$det"

func init() {
	bigBin := func(name, doc string, f func(a, b Term) Term) {
		full := "(*math/big.Int)." + name
		libModelDocs[full] = doc
		libModels[full] = func(fv *FV, e *Env, x *ast.CallExpr, recv *Value, args []Value) (Value, bool) {
			if recv == nil || len(args) != 2 {
				return Value{}, false
			}
			a := fv.loadComp(e, "bigval", sInt, args[0].T)
			b := fv.loadComp(e, "bigval", sInt, args[1].T)
			if name == "Quo" || name == "Div" || name == "Rem" || name == "Mod" {
				fv.oblige(e, "div", x, "big.Int division by zero", not(eq(b, intLit(0))))
				fv.assume(e, not(eq(b, intLit(0))))
			}
			fv.storeComp(e, "bigval", sInt, f(a, b), recv.T)
			return Value{K: kScalar, T: recv.T, Type: recv.Type}, true
		}
	}
	bigBin("Add", "z = x + y exactly; returns z", add)
	bigBin("Sub", "z = x - y exactly; returns z", sub)
	bigBin("Mul", "z = x * y exactly; returns z", mul)
	bigBin("Quo", "z = x / y truncated toward zero; y != 0", tdiv)
	bigBin("Rem", "z = x - y*trunc(x/y); y != 0", func(a, b Term) Term { return sub(a, mul(b, tdiv(a, b))) })
	bigBin("Div", "z = Euclidean x div y; y != 0", func(a, b Term) Term { return app(sInt, "div", a, b) })
	bigBin("Mod", "z = Euclidean x mod y; y != 0", func(a, b Term) Term { return app(sInt, "mod", a, b) })

	bigUn := func(name, doc string, f func(a Term) Term) {
		full := "(*math/big.Int)." + name
		libModelDocs[full] = doc
		libModels[full] = func(fv *FV, e *Env, x *ast.CallExpr, recv *Value, args []Value) (Value, bool) {
			if recv == nil || len(args) != 1 {
				return Value{}, false
			}
			a := fv.loadComp(e, "bigval", sInt, args[0].T)
			fv.storeComp(e, "bigval", sInt, f(a), recv.T)
			return Value{K: kScalar, T: recv.T, Type: recv.Type}, true
		}
	}
	bigUn("Set", "z = x; returns z", func(a Term) Term { return a })
	bigUn("Abs", "z = |x|", func(a Term) Term { return ite(ge(a, intLit(0)), a, sub(intLit(0), a)) })
	bigUn("Neg", "z = -x", func(a Term) Term { return sub(intLit(0), a) })

	setScalar := func(name string) {
		full := "(*math/big.Int)." + name
		libModelDocs[full] = "z = n exactly; returns z"
		libModels[full] = func(fv *FV, e *Env, x *ast.CallExpr, recv *Value, args []Value) (Value, bool) {
			if recv == nil || len(args) != 1 {
				return Value{}, false
			}
			fv.storeComp(e, "bigval", sInt, args[0].T, recv.T)
			return Value{K: kScalar, T: recv.T, Type: recv.Type}, true
		}
	}
	setScalar("SetUint64")
	setScalar("SetInt64")

	libModelDocs["math/big.NewInt"] = "allocates a fresh Int with value n"
	libModels["math/big.NewInt"] = func(fv *FV, e *Env, x *ast.CallExpr, recv *Value, args []Value) (Value, bool) {
		r := fv.allocRef(e, "bigint")
		fv.storeComp(e, "bigval", sInt, args[0].T, r)
		return Value{K: kScalar, T: r, Type: fv.typeOf(x)}, true
	}

	cmp := func(a, b Term) Term {
		return ite(lt(a, b), intLit(-1), ite(eq(a, b), intLit(0), intLit(1)))
	}
	libModelDocs["(*math/big.Int).Cmp"] = "sign(x - y) in {-1,0,1}; no effect"
	libModels["(*math/big.Int).Cmp"] = func(fv *FV, e *Env, x *ast.CallExpr, recv *Value, args []Value) (Value, bool) {
		a := fv.loadComp(e, "bigval", sInt, recv.T)
		b := fv.loadComp(e, "bigval", sInt, args[0].T)
		return Value{K: kScalar, T: cmp(a, b), Type: fv.typeOf(x)}, true
	}
	libModelDocs["(*math/big.Int).CmpAbs"] = "sign(|x| - |y|); no effect"
	libModels["(*math/big.Int).CmpAbs"] = func(fv *FV, e *Env, x *ast.CallExpr, recv *Value, args []Value) (Value, bool) {
		abs := func(a Term) Term { return ite(ge(a, intLit(0)), a, sub(intLit(0), a)) }
		a := fv.loadComp(e, "bigval", sInt, recv.T)
		b := fv.loadComp(e, "bigval", sInt, args[0].T)
		return Value{K: kScalar, T: cmp(abs(a), abs(b)), Type: fv.typeOf(x)}, true
	}
	libModelDocs["(*math/big.Int).Sign"] = "sign(x); no effect"
	libModels["(*math/big.Int).Sign"] = func(fv *FV, e *Env, x *ast.CallExpr, recv *Value, args []Value) (Value, bool) {
		a := fv.loadComp(e, "bigval", sInt, recv.T)
		return Value{K: kScalar, T: cmp(a, intLit(0)), Type: fv.typeOf(x)}, true
	}
	inRange := func(name string, lo, hi Term) {
		full := "(*math/big.Int)." + name
		libModelDocs[full] = "range test; no effect"
		libModels[full] = func(fv *FV, e *Env, x *ast.CallExpr, recv *Value, args []Value) (Value, bool) {
			a := fv.loadComp(e, "bigval", sInt, recv.T)
			return Value{K: kScalar, T: and(le(lo, a), le(a, hi)), Type: fv.typeOf(x)}, true
		}
	}
	i64lo, i64hi, _, _, _ := intRange(types.Typ[types.Int64])
	_, u64hi, _, _, _ := intRange(types.Typ[types.Uint64])
	inRange("IsInt64", bigLit(i64lo), bigLit(i64hi))
	inRange("IsUint64", intLit(0), bigLit(u64hi))
	toMachine := func(name string, t types.Type) {
		full := "(*math/big.Int)." + name
		libModelDocs[full] = "value of x when representable, otherwise undefined (unconstrained); no effect"
		libModels[full] = func(fv *FV, e *Env, x *ast.CallExpr, recv *Value, args []Value) (Value, bool) {
			a := fv.loadComp(e, "bigval", sInt, recv.T)
			r := fv.freshValue(t, "bigto")
			lo, hi, _, _, _ := intRange(t)
			fv.s.assume(implies(and(le(bigLit(lo), a), le(a, bigLit(hi))), eq(r.T, a)))
			return r, true
		}
	}
	toMachine("Int64", types.Typ[types.Int64])
	toMachine("Uint64", types.Typ[types.Uint64])

	libModelDocs["(*math/big.Int).Sqrt"] = "z = floor(sqrt(x)) for x >= 0 (panics otherwise); returns z"
	libModels["(*math/big.Int).Sqrt"] = func(fv *FV, e *Env, x *ast.CallExpr, recv *Value, args []Value) (Value, bool) {
		a := fv.loadComp(e, "bigval", sInt, args[0].T)
		fv.oblige(e, "panic", x, "big.Int.Sqrt of a negative number panics", ge(a, intLit(0)))
		fv.assume(e, ge(a, intLit(0)))
		r := fv.s.freshConst("sqrt", sInt)
		fv.assume(e, and(ge(r, intLit(0)), le(mul(r, r), a), lt(a, mul(add(r, intLit(1)), add(r, intLit(1))))))
		fv.storeComp(e, "bigval", sInt, r, recv.T)
		return Value{K: kScalar, T: recv.T, Type: recv.Type}, true
	}
	libModelDocs["(*math/big.Int).SetBytes"] = "z = big-endian unsigned value of buf (abstract, >= 0); returns z"
	libModels["(*math/big.Int).SetBytes"] = func(fv *FV, e *Env, x *ast.CallExpr, recv *Value, args []Value) (Value, bool) {
		r := fv.s.freshConst("frombytes", sInt)
		fv.s.assume(ge(r, intLit(0)))
		fv.storeComp(e, "bigval", sInt, r, recv.T)
		return Value{K: kScalar, T: recv.T, Type: recv.Type}, true
	}
	libModelDocs["(*math/big.Int).Bytes"] = "fresh byte slice (contents abstract); no effect"
	libModels["(*math/big.Int).Bytes"] = func(fv *FV, e *Env, x *ast.CallExpr, recv *Value, args []Value) (Value, bool) {
		v := fv.freshValue(fv.typeOf(x), "bigbytes")
		return v, true
	}
	for _, n := range []string{"String", "Text"} {
		n := n
		libModelDocs["(*math/big.Int)."+n] = "abstract string; no effect"
		libModels["(*math/big.Int)."+n] = func(fv *FV, e *Env, x *ast.CallExpr, recv *Value, args []Value) (Value, bool) {
			return fv.freshValue(fv.typeOf(x), "bigstr"), true
		}
	}

	// errors / fmt
	newErr := func(fv *FV, e *Env, x *ast.CallExpr, recv *Value, args []Value) (Value, bool) {
		r := fv.allocRef(e, "err")
		// %w wrapping: errors.Is(r, t) iff r == t or some wrapped argument is
		var wrapped []Term
		for i, a := range x.Args {
			if i == 0 {
				continue
			}
			if t := fv.typeOf(a); t != nil && types.Identical(t, types.Universe.Lookup("error").Type()) && i < len(args)+0 {
				wrapped = append(wrapped, args[i].T)
			}
		}
		fv.s.declFun("err_is", []string{sRef, sRef}, sBool)
		var ws string
		for _, w := range wrapped {
			ws += fmt.Sprintf(" (err_is %s t)", w.S)
		}
		fv.s.assume(Term{fmt.Sprintf("(forall ((t Ref)) (! (= (err_is %s t) (or (= %s t)%s)) :pattern ((err_is %s t))))", r.S, r.S, ws, r.S), sBool})
		return Value{K: kScalar, T: r, Type: fv.typeOf(x)}, true
	}
	libModelDocs["fmt.Errorf"] = "fresh non-nil error; errors.Is(result, t) iff result == t or a wrapped error argument Is t (any error-typed argument is treated as wrapped, an over-approximation of %w)"
	libModels["fmt.Errorf"] = newErr
	libModelDocs["errors.New"] = "fresh non-nil error"
	libModels["errors.New"] = func(fv *FV, e *Env, x *ast.CallExpr, recv *Value, args []Value) (Value, bool) {
		r := fv.allocRef(e, "err")
		fv.s.declFun("err_is", []string{sRef, sRef}, sBool)
		fv.s.assume(Term{fmt.Sprintf("(forall ((t Ref)) (! (= (err_is %s t) (= %s t)) :pattern ((err_is %s t))))", r.S, r.S, r.S), sBool})
		return Value{K: kScalar, T: r, Type: fv.typeOf(x)}, true
	}
	libModelDocs["github.com/oasisprotocol/oasis-core/go/common/errors.WithContext"] = "fresh non-nil error wrapping its argument (errors.Is passes through)"
	libModels["github.com/oasisprotocol/oasis-core/go/common/errors.WithContext"] = func(fv *FV, e *Env, x *ast.CallExpr, recv *Value, args []Value) (Value, bool) {
		r := fv.allocRef(e, "err")
		fv.errIs(r, r)
		fv.s.assume(Term{fmt.Sprintf("(forall ((t Ref)) (! (= (err_is %s t) (or (= %s t) (err_is %s t))) :pattern ((err_is %s t))))", r.S, r.S, args[0].T.S, r.S), sBool})
		return Value{K: kScalar, T: r, Type: fv.typeOf(x)}, true
	}
	libModelDocs["errors.Is"] = "err == target, or err wraps (transitively) an error that Is target; false for nil err"
	libModels["errors.Is"] = func(fv *FV, e *Env, x *ast.CallExpr, recv *Value, args []Value) (Value, bool) {
		return Value{K: kScalar, T: fv.errIs(args[0].T, args[1].T), Type: fv.typeOf(x)}, true
	}

	libModelDocs["bytes.Equal"] = "equality of the content identities of the two byte slices (bytes_id is an abstract, injective-by-assumption function of contents; equal identities have equal lengths, and all empty slices - nil or not - share one identity); no effect"
	libModels["bytes.Equal"] = func(fv *FV, e *Env, x *ast.CallExpr, recv *Value, args []Value) (Value, bool) {
		if args[0].K != kSlice || args[1].K != kSlice {
			return Value{}, false
		}
		same := eq(fv.bytesID(e, args[0]), fv.bytesID(e, args[1]))
		// content identity determines the length, and there is one empty content (nil and empty slices alike)
		fv.assume(e, implies(same, eq(args[0].Len, args[1].Len)))
		fv.assume(e, implies(and(eq(args[0].Len, intLit(0)), eq(args[1].Len, intLit(0))), same))
		return Value{K: kScalar, T: same, Type: fv.typeOf(x)}, true
	}
	libModelDocs["slices.IndexFunc"] = "result is -1 or an index of the slice (which element it is, is not modelled); the predicate is not executed"
	libModels["slices.IndexFunc"] = func(fv *FV, e *Env, x *ast.CallExpr, recv *Value, args []Value) (Value, bool) {
		if len(args) != 2 || args[0].K != kSlice {
			return Value{}, false
		}
		r := fv.freshValue(fv.typeOf(x), "indexfunc")
		fv.assume(e, and(le(intLit(-1), r.T), lt(r.T, args[0].Len)))
		return r, true
	}
	// sorting: the elements are permuted (modelled as: forgotten), and the order of
	// the backing array becomes a function of its element set - ordDet(s) - under the
	// recorded assumption that the comparison is a total order on the elements.
	sortModel := func(establishes bool) func(fv *FV, e *Env, x *ast.CallExpr, recv *Value, args []Value) (Value, bool) {
		return func(fv *FV, e *Env, x *ast.CallExpr, recv *Value, args []Value) (Value, bool) {
			if len(args) < 1 || args[0].K != kSlice {
				return Value{}, false
			}
			st := fv.typeOf(x.Args[0])
			if st == nil {
				return Value{}, false
			}
			sl, ok := st.Underlying().(*types.Slice)
			if !ok {
				return Value{}, false
			}
			// a nil slice has no backing array: nothing is written
			pre := e.clone()
			fv.havocSliceElems(e, args[0], sl.Elem())
			isNil := eq(args[0].T, tNull)
			fv.assume(e, implies(isNil, eq(args[0].Len, intLit(0)))) // Go: a slice without a backing array is empty
			for c, t := range e.heap {
				if old, ok := pre.heap[c]; ok && old.S != t.S && old.Sort == t.Sort {
					e.heap[c] = ite(isNil, old, t)
				} else if !ok {
					e.heap[c] = ite(isNil, fv.heapGet(pre, c, t.Sort), t)
				}
			}
			if establishes {
				cur := fv.heapGet(e, ordDetComp, arrSort(sRef, sBool))
				fv.heapSet(e, ordDetComp, ite(isNil, cur, store(cur, args[0].T, tTrue)))
				fv.assumptionsUsed["sort.Slice / sort.Strings / slices.Sort: the comparison is a total order on the (distinct) elements, so the sorted order depends only on the element set"] = true
			}
			return Value{}, true
		}
	}
	for _, n := range []string{"sort.Slice", "sort.Strings", "slices.Sort", "sort.Ints"} {
		libModelDocs[n] = "elements permuted (contents forgotten); ordDet(s) holds afterwards"
		libModels[n] = sortModel(true)
	}
	for _, n := range []string{"sort.SliceStable", "slices.SortStableFunc"} {
		libModelDocs[n] = "elements permuted (contents forgotten); ordDet(s) unchanged: ties keep the previous order"
		libModels[n] = sortModel(false)
	}
	libModelDocs["slices.Clone"] = "fresh slice with equal contents"
	libModels["slices.Clone"] = func(fv *FV, e *Env, x *ast.CallExpr, recv *Value, args []Value) (Value, bool) {
		v := fv.freshValue(fv.typeOf(x), "clone")
		if args[0].K == kSlice && v.K == kSlice {
			fv.s.assume(eq(v.Len, args[0].Len))
		}
		return v, true
	}
}

// encoding/binary fixed-width readers and writers (trusted: bounds and value ranges).
func init() {
	for _, order := range []string{"littleEndian", "bigEndian"} {
		for _, w := range []struct {
			name string
			n    int64
		}{{"Uint16", 2}, {"Uint32", 4}, {"Uint64", 8}} {
			w := w
			full := "(encoding/binary." + order + ")." + w.name
			libModelDocs[full] = fmt.Sprintf("reads %d bytes (panics if the slice is shorter); result is the exact little/big-endian value", w.n)
			libModels[full] = func(fv *FV, e *Env, x *ast.CallExpr, recv *Value, args []Value) (Value, bool) {
				if len(args) != 1 || args[0].K != kSlice {
					return Value{}, false
				}
				c := ge(args[0].Len, intLit(w.n))
				fv.oblige(e, "bounds", x, fmt.Sprintf("binary.%s needs %d bytes", w.name, w.n), c)
				fv.assume(e, c)
				// exact value: sum of bytes weighted by powers of 256
				inner := fv.sliceInner(e, args[0], sInt)
				var sum Term
				for k := int64(0); k < w.n; k++ {
					idx := k
					if order == "bigEndian" {
						idx = w.n - 1 - k
					}
					b := sel(inner, add(args[0].Off, intLit(idx)))
					fv.assume(e, and(le(intLit(0), b), le(b, intLit(255))))
					t := mul(b, bigLit(pow2(uint(8*k))))
					if k == 0 {
						sum = b
					} else {
						sum = add(sum, t)
					}
				}
				r := fv.s.freshConst("le", sInt)
				fv.s.assume(eq(r, sum))
				return Value{K: kScalar, T: r, Type: fv.typeOf(x)}, true
			}
			pfull := "(encoding/binary." + order + ").Put" + w.name
			libModelDocs[pfull] = fmt.Sprintf("writes %d bytes (panics if the slice is shorter)", w.n)
			libModels[pfull] = func(fv *FV, e *Env, x *ast.CallExpr, recv *Value, args []Value) (Value, bool) {
				if len(args) != 2 || args[0].K != kSlice {
					return Value{}, false
				}
				c := ge(args[0].Len, intLit(w.n))
				fv.oblige(e, "bounds", x, fmt.Sprintf("binary.Put%s needs %d bytes", w.name, w.n), c)
				fv.assume(e, c)
				fv.havocSliceElems(e, args[0], types.Typ[types.Uint8])
				return Value{}, true
			}
		}
	}
}

// Dynamic dispatch of mkvs node.Node.GetHash over its two implementers.
func init() {
	full := "(" + modPrefix + "storage/mkvs/node.Node).GetHash"
	libModelDocs[full] = "dispatches on the dynamic type: (*InternalNode).Hash or (*LeafNode).Hash (both GetHash methods return the cached field)"
	libModels[full] = func(fv *FV, e *Env, x *ast.CallExpr, recv *Value, args []Value) (Value, bool) {
		if recv == nil {
			return Value{}, false
		}
		it := fv.typeOf(x.Fun.(*ast.SelectorExpr).X)
		if it == nil {
			return Value{}, false
		}
		pkg := it.(*types.Named).Obj().Pkg()
		inT := pkg.Scope().Lookup("InternalNode").Type()
		lfT := pkg.Scope().Lookup("LeafNode").Type()
		field := func(t types.Type) *types.Var {
			st := t.Underlying().(*types.Struct)
			for i := 0; i < st.NumFields(); i++ {
				if st.Field(i).Name() == "Hash" {
					return st.Field(i)
				}
			}
			return nil
		}
		hi := fv.loadComp(e, fieldComp(inT, field(inT)), sBlob, recv.T)
		hl := fv.loadComp(e, fieldComp(lfT, field(lfT)), sBlob, recv.T)
		r := fv.s.freshConst("nodehash", sBlob)
		fv.assume(e, implies(eq(fv.dynOf(recv.T), fv.dynTag(types.NewPointer(inT))), eq(r, hi)))
		fv.assume(e, implies(eq(fv.dynOf(recv.T), fv.dynTag(types.NewPointer(lfT))), eq(r, hl)))
		return Value{K: kScalar, T: r, Type: fv.typeOf(x)}, true
	}
}

func init() {
	full := "(context.Context).Err"
	libModelDocs[full] = "a function of the context (cancellation is sticky: once non-nil it stays non-nil; modelled as fixed during one call)"
	libModels[full] = func(fv *FV, e *Env, x *ast.CallExpr, recv *Value, args []Value) (Value, bool) {
		if recv == nil {
			return Value{}, false
		}
		fv.s.declFun("ctx_err", []string{sRef}, sRef)
		return Value{K: kScalar, T: app(sRef, "ctx_err", recv.T), Type: fv.typeOf(x)}, true
	}
}

// cbor.Unmarshal(data, dst): decoding is a deterministic function of the
// input bytes. For a destination that is a pointer to a struct, every field
// becomes an uninterpreted function of the input's content identity, named
// cbor.<Type>.<Field> (usable from contracts as uf("cbor.T.F", bytesId(data))).
func init() {
	for _, name := range []string{"Unmarshal", "UnmarshalTrusted"} {
		full := modPrefix + "common/cbor." + name
		libModelDocs[full] = "deterministic decoder: on success each field of *dst is a function of the input bytes (uf cbor.<Type>.<Field>); writes only *dst; the result error is a function of the input"
		libModels[full] = func(fv *FV, e *Env, x *ast.CallExpr, recv *Value, args []Value) (Value, bool) {
			if len(args) != 2 || args[0].K != kSlice || len(x.Args) != 2 {
				return Value{}, false
			}
			dt := fv.typeOf(x.Args[1])
			if dt == nil {
				return Value{}, false
			}
			p, ok := dt.Underlying().(*types.Pointer)
			if !ok || !isObjectType(p.Elem()) || isBigInt(p.Elem()) {
				return Value{}, false
			}
			named, ok := types.Unalias(p.Elem()).(*types.Named)
			if !ok {
				return Value{}, false
			}
			id := fv.bytesID(e, args[0])
			fv.s.declFun("uf$cbor.err$Int", []string{sInt}, sRef)
			errT := app(sRef, "uf$cbor.err$Int", id)
			fv.decodeInto(e, id, args[1].T, p.Elem(), "cbor."+named.Obj().Name())
			fv.havocAlloc(e)
			return Value{K: kScalar, T: errT, Type: fv.typeOf(x)}, true
		}
	}
}

func (fv *FV) decodeInto(e *Env, id Term, ref Term, t types.Type, prefix string) {
	st := structOf(t)
	if st == nil || isBigInt(t) {
		fv.havocObject(e, ref, t)
		return
	}
	for i := 0; i < st.NumFields(); i++ {
		f := st.Field(i)
		name := prefix + "." + f.Name()
		if isObjectType(f.Type()) {
			if isBigInt(f.Type()) || structOf(f.Type()) == nil {
				fv.havocObject(e, fv.fieldAddr(t, f, ref), f.Type())
				continue
			}
			fv.decodeInto(e, id, fv.fieldAddr(t, f, ref), f.Type(), name)
			continue
		}
		k, srt := sortOf(f.Type())
		switch k {
		case kSlice:
			v := fv.freshValue(f.Type(), "dec")
			if sl, ok := f.Type().Underlying().(*types.Slice); ok {
				if b, ok := sl.Elem().Underlying().(*types.Basic); ok && b.Kind() == types.Uint8 {
					fn := "uf$" + sanitize(name) + "$Int"
					fv.s.declFun(fn, []string{sInt}, sInt)
					fv.assume(e, eq(fv.bytesID(e, v), app(sInt, fn, id)))
				}
			}
			fv.assumeAllocated(e, v)
			fv.storeField(e, t, f, ref, v)
		default:
			fn := "uf$" + sanitize(name) + "$Int"
			fv.s.declFun(fn, []string{sInt}, srt)
			val := app(srt, fn, id)
			fv.assume(e, rangeFact(val, f.Type()))
			fv.storeField(e, t, f, ref, Value{K: kScalar, T: val, Type: f.Type()})
		}
	}
}

// tidwall/btree.Map[string, []byte] (the write set of an MKVS overlay): a ghost
// map per receiver address from string keys to byte-slice values. Only the
// point operations are modelled; Clear, Copy, Iter, Len stay opaque.
func init() {
	const recv = "(*github.com/tidwall/btree.Map[string, []byte])."
	dom := func(fv *FV, e *Env, r Term) Term { return fv.loadComp(e, "BT$dom", arrSort(sStr, sBool), r) }
	part := func(fv *FV, e *Env, name, sort string, r Term) Term {
		return fv.loadComp(e, "BT$"+name, arrSort(sStr, sort), r)
	}
	lookup := func(fv *FV, e *Env, r, k Term, t types.Type) (Value, Term) {
		present := sel(dom(fv, e, r), k)
		v := Value{K: kSlice, Type: t,
			T:   ite(present, sel(part(fv, e, "arr", sRef, r), k), tNull),
			Off: ite(present, sel(part(fv, e, "off", sInt, r), k), intLit(0)),
			Len: ite(present, sel(part(fv, e, "len", sInt, r), k), intLit(0)),
			Cap: ite(present, sel(part(fv, e, "len", sInt, r), k), intLit(0))}
		return v, present
	}
	valType := func(fv *FV, x *ast.CallExpr) types.Type {
		if tup, ok := fv.typeOf(x).(*types.Tuple); ok && tup.Len() == 2 {
			return tup.At(0).Type()
		}
		return nil
	}
	libModelDocs[recv+"Get"] = "ghost map: (stored slice, true) if the key is present, (nil, false) otherwise; no effect"
	libModels[recv+"Get"] = func(fv *FV, e *Env, x *ast.CallExpr, rv *Value, args []Value) (Value, bool) {
		t := valType(fv, x)
		if rv == nil || len(args) != 1 || t == nil {
			return Value{}, false
		}
		v, present := lookup(fv, e, rv.T, args[0].T, t)
		return Value{K: kTuple, Tuple: []Value{v, {K: kScalar, T: present}}}, true
	}
	libModelDocs[recv+"Set"] = "ghost map: key now maps to the given slice (nil stays nil); returns the previous binding"
	libModels[recv+"Set"] = func(fv *FV, e *Env, x *ast.CallExpr, rv *Value, args []Value) (Value, bool) {
		t := valType(fv, x)
		if rv == nil || len(args) != 2 || t == nil || args[1].K != kSlice {
			return Value{}, false
		}
		prev, present := lookup(fv, e, rv.T, args[0].T, t)
		k, nv := args[0].T, args[1]
		fv.storeComp(e, "BT$dom", arrSort(sStr, sBool), store(dom(fv, e, rv.T), k, tTrue), rv.T)
		fv.storeComp(e, "BT$arr", arrSort(sStr, sRef), store(part(fv, e, "arr", sRef, rv.T), k, nv.T), rv.T)
		fv.storeComp(e, "BT$off", arrSort(sStr, sInt), store(part(fv, e, "off", sInt, rv.T), k, nv.Off), rv.T)
		fv.storeComp(e, "BT$len", arrSort(sStr, sInt), store(part(fv, e, "len", sInt, rv.T), k, nv.Len), rv.T)
		return Value{K: kTuple, Tuple: []Value{prev, {K: kScalar, T: present}}}, true
	}
	libModelDocs[recv+"Delete"] = "ghost map: key absent afterwards; returns the previous binding"
	libModels[recv+"Delete"] = func(fv *FV, e *Env, x *ast.CallExpr, rv *Value, args []Value) (Value, bool) {
		t := valType(fv, x)
		if rv == nil || len(args) != 1 || t == nil {
			return Value{}, false
		}
		prev, present := lookup(fv, e, rv.T, args[0].T, t)
		fv.storeComp(e, "BT$dom", arrSort(sStr, sBool), store(dom(fv, e, rv.T), args[0].T, tFalse), rv.T)
		return Value{K: kTuple, Tuple: []Value{prev, {K: kScalar, T: present}}}, true
	}
}
