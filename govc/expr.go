package main

// Translation of Go expressions (code and contract expressions share it).

import (
	"fmt"
	"hash/fnv"
	"go/ast"
	"go/constant"
	"go/token"
	"go/types"
	"strings"
)

type lvKind int

const (
	lvBlank lvKind = iota
	lvVar
	lvCell    // heap cell: comp base + index terms
	lvObject  // object-typed location identified by its address
	lvArrElem // element of an array-typed location
	lvLocalMap // entry of an owned local map
	lvUnknown
	lvGlobalInit // a pointer/interface-typed package variable being initialised (init contracts): its symbolic constant is bound to the value
)

type LV struct {
	kind  lvKind
	obj   types.Object
	typ   types.Type
	comp  string
	idx   []Term
	addr  Term // lvObject
	inner *LV  // lvArrElem: the array location
	sort  string // non-empty: SMT sort override (ghost maps)
	elemI Term // lvArrElem: index
}

func (fv *FV) typeOf(x ast.Expr) types.Type {
	if tv, ok := fv.info.Types[x]; ok && tv.Type != nil {
		return tv.Type
	}
	if id, ok := x.(*ast.Ident); ok {
		if o := fv.info.ObjectOf(id); o != nil {
			return o.Type()
		}
	}
	return nil
}

func (fv *FV) note(format string, args ...any) {
	msg := fmt.Sprintf(format, args...)
	if !fv.noteSeen[msg] {
		fv.noteSeen[msg] = true
		fv.notes = append(fv.notes, msg)
	}
}

func (fv *FV) posStr(p token.Pos) string {
	pos := fv.eng.fset.Position(p)
	return fmt.Sprintf("%s:%d", strings.TrimPrefix(pos.Filename, repoGo+"/"), pos.Line)
}

// unknown yields an unconstrained value of the right shape.
func (fv *FV) unknown(t types.Type, why string) Value {
	if fv.spec != nil {
		fv.specErr("unsupported in contract expression: " + why)
	}
	return fv.freshValue(t, "unk")
}

func (fv *FV) specErr(msg string) {
	fv.specErrors = append(fv.specErrors, msg)
}

func (fv *FV) freshValue(t types.Type, base string) Value {
	k, s := sortOf(t)
	switch k {
	case kSlice:
		v := Value{K: kSlice, Type: t, T: fv.s.freshConst(base+".arr", sRef), Off: fv.s.freshConst(base+".off", sInt), Len: fv.s.freshConst(base+".len", sInt), Cap: fv.s.freshConst(base+".cap", sInt)}
		fv.s.assume(and(le(intLit(0), v.Off), le(intLit(0), v.Len), le(v.Len, v.Cap), le(v.Cap, Term{"9223372036854775807", sInt})))
		return v
	case kTuple:
		tup := t.(*types.Tuple)
		v := Value{K: kTuple, Type: t}
		for i := 0; i < tup.Len(); i++ {
			v.Tuple = append(v.Tuple, fv.freshValue(tup.At(i).Type(), base))
		}
		return v
	}
	c := fv.s.freshConst(base, s)
	if t != nil {
		fv.s.assume(rangeFact(c, t))
	}
	return Value{K: kScalar, T: c, Type: t}
}

func (fv *FV) zeroValue(e *Env, t types.Type) Value {
	k, s := sortOf(t)
	if k == kSlice {
		return Value{K: kSlice, Type: t, T: tNull, Off: intLit(0), Len: intLit(0), Cap: intLit(0)}
	}
	if isObjectType(t) {
		return Value{K: kScalar, T: fv.allocObject(e, t, "zero"), Type: t}
	}
	return Value{K: kScalar, T: fv.zero(s), Type: t}
}

func (fv *FV) zero(sort string) Term {
	if sort == sStr {
		return fv.strConst("")
	}
	return zeroTerm(sort)
}

// strConst interns a string literal.
func (fv *FV) strConst(s string) Term {
	if t, ok := fv.strs[s]; ok {
		return t
	}
	fv.s.declFun("str_len", []string{sStr}, sInt)
	name := fmt.Sprintf("str!%d", len(fv.strs))
	t := fv.s.declConst(name, sStr)
	fv.s.assume(eq(app(sInt, "str_len", t), intLit(int64(len(s)))))
	for _, o := range fv.strs {
		fv.s.assume(not(eq(t, o)))
	}
	fv.strs[s] = t
	fv.strVals[name] = s
	return t
}

func (fv *FV) constValue(cv constant.Value, t types.Type) (Value, bool) {
	switch cv.Kind() {
	case constant.Bool:
		return Value{K: kScalar, T: boolLit(constant.BoolVal(cv)), Type: t}, true
	case constant.Int:
		return Value{K: kScalar, T: intLitStr(cv.ExactString()), Type: t}, true
	case constant.String:
		return Value{K: kScalar, T: fv.strConst(constant.StringVal(cv)), Type: t}, true
	case constant.Float:
		if _, s := sortOf(t); s == sInt {
			if i := constant.ToInt(cv); i.Kind() == constant.Int {
				return Value{K: kScalar, T: intLitStr(i.ExactString()), Type: t}, true
			}
		}
	}
	return Value{}, false
}

// ---------------------------------------------------------------------------
// Allocation and object layout.

func (fv *FV) rootOf(t Term) Term {
	fv.s.declFun("root", []string{sRef}, sRef)
	return app(sRef, "root", t)
}

// allocRef returns a fresh non-null root reference.
func (fv *FV) allocRef(e *Env, base string) Term {
	r := fv.s.freshConst(base, sRef)
	fv.s.declFun("root", []string{sRef}, sRef)
	fv.s.declFun("akind", []string{sRef}, sInt)
	fv.s.assume(and(not(eq(r, tNull)), not(sel(e.alloc, r)), eq(fv.rootOf(r), r), eq(app(sInt, "akind", r), intLit(0))))
	if !e.dead {
		// a fresh reference is not stored in any pointer field yet
		ptrSort := arrSort(sRef, sRef)
		for _, c := range sortedKeys(fv.compSort) {
			if fv.compSort[c] != ptrSort {
				continue
			}
			cur := fv.heapGet(e, c, ptrSort)
			fv.s.assume(Term{fmt.Sprintf("(forall ((x Ref)) (! (not (= (select %s x) %s)) :pattern ((select %s x))))", cur.S, r.S, cur.S), sBool})
		}
		na := fv.s.freshConst("alloc", arrSort(sRef, sBool))
		fv.s.assume(eq(na, store(e.alloc, r, tTrue)))
		e.alloc = na
	}
	return r
}

// allocObject allocates a zero-initialised object of type t.
func (fv *FV) allocObject(e *Env, t types.Type, base string) Term {
	r := fv.allocRef(e, base)
	fv.zeroObject(e, r, t)
	// the address of a T object has dynamic type *T when stored in an interface
	fv.s.assume(eq(fv.dynOf(r), fv.dynTag(types.NewPointer(t))))
	return r
}

func (fv *FV) zeroObject(e *Env, r Term, t types.Type) {
	if isBigInt(t) {
		fv.storeCell(e, "bigval", nil, sInt, scalar(intLit(0)), r)
		return
	}
	if a, ok := objArray(t); ok {
		for i := int64(0); i < a.Len(); i++ {
			fv.zeroObject(e, fv.elemAddr(a.Elem(), r, intLit(i)), a.Elem())
		}
		return
	}
	st := structOf(t)
	if st == nil {
		return
	}
	for i := 0; i < st.NumFields(); i++ {
		f := st.Field(i)
		if isObjectType(f.Type()) {
			fv.zeroObject(e, fv.fieldAddr(t, f, r), f.Type())
			continue
		}
		fv.storeField(e, t, f, r, fv.zeroValue(e, f.Type()))
	}
}

// fieldAddr is the address of an embedded (by-value) object field.
func (fv *FV) fieldAddr(owner types.Type, f *types.Var, r Term) Term {
	name := addrFun(owner, f)
	if _, ok := fv.s.decls[name]; !ok {
		fv.s.declFun(name, []string{sRef}, sRef)
		fv.s.declFun(name+"^inv", []string{sRef}, sRef)
		fv.s.declFun("root", []string{sRef}, sRef)
		fv.s.declFun("akind", []string{sRef}, sInt)
		fv.nAddrFun++
		k := fv.nAddrFun
		fv.s.axiom(name, fmt.Sprintf("(forall ((r Ref)) (! (and (= (%s^inv (%s r)) r) (= (root (%s r)) (root r)) (= (akind (%s r)) %d) (not (= (%s r) null))) :pattern ((%s r))))", name, name, name, name, k, name, name))
	}
	return app(sRef, name, r)
}

func (fv *FV) elemAddr(elem types.Type, arr, i Term) Term {
	name := "ea$" + sanitize(typeStr(elem))
	if _, ok := fv.s.decls[name]; !ok {
		fv.s.declFun(name, []string{sRef, sInt}, sRef)
		fv.s.declFun(name+"^arr", []string{sRef}, sRef)
		fv.s.declFun(name+"^idx", []string{sRef}, sInt)
		fv.s.declFun("root", []string{sRef}, sRef)
		fv.s.declFun("akind", []string{sRef}, sInt)
		fv.nAddrFun++
		k := fv.nAddrFun
		fv.s.axiom(name, fmt.Sprintf("(forall ((r Ref) (i Int)) (! (and (= (%s^arr (%s r i)) r) (= (%s^idx (%s r i)) i) (= (root (%s r i)) (root r)) (= (akind (%s r i)) %d) (not (= (%s r i) null))) :pattern ((%s r i))))", name, name, name, name, name, name, k, name, name))
	}
	return app(sRef, name, arr, i)
}

// ---------------------------------------------------------------------------
// Heap cells.

func cellSort(idxSorts []string, elem string) string {
	s := elem
	for i := len(idxSorts) - 1; i >= 0; i-- {
		s = arrSort(idxSorts[i], s)
	}
	return s
}

func (fv *FV) loadComp(e *Env, comp, elemSort string, idx ...Term) Term {
	is := make([]string, len(idx))
	for i, t := range idx {
		is[i] = t.Sort
	}
	a := fv.heapGet(e, comp, cellSort(is, elemSort))
	for _, i := range idx {
		a = sel(a, i)
	}
	return a
}

func (fv *FV) storeComp(e *Env, comp, elemSort string, v Term, idx ...Term) {
	if e.dead {
		return
	}
	is := make([]string, len(idx))
	for i, t := range idx {
		is[i] = t.Sort
	}
	a := fv.heapGet(e, comp, cellSort(is, elemSort))
	var nv Term
	switch len(idx) {
	case 1:
		nv = store(a, idx[0], v)
	case 2:
		nv = store(a, idx[0], store(sel(a, idx[0]), idx[1], v))
	default:
		panic("storeComp arity")
	}
	n := fv.s.freshConst(comp, a.Sort)
	fv.s.assume(eq(n, nv))
	fv.heapSet(e, comp, n)
}

// loadCell reads a Go value of static type t stored in component family comp.
func (fv *FV) loadCell(e *Env, comp string, t types.Type, sortHint string, idx ...Term) Value {
	k, s := sortOf(t)
	if t == nil {
		k, s = kScalar, sortHint
	}
	if k == kSlice {
		v := Value{K: kSlice, Type: t,
			T:   fv.loadComp(e, comp+"#arr", sRef, idx...),
			Off: fv.loadComp(e, comp+"#off", sInt, idx...),
			Len: fv.loadComp(e, comp+"#len", sInt, idx...),
			Cap: fv.loadComp(e, comp+"#cap", sInt, idx...)}
		if fv.spec == nil {
			fv.assume(e, and(le(intLit(0), v.Off), le(intLit(0), v.Len), le(v.Len, v.Cap), le(v.Cap, Term{"9223372036854775807", sInt})))
			al := e.alloc
			if _, changed := e.heap[comp+"#arr"]; !changed && e.epoch == 0 && fv.entry != nil {
				al = fv.entry.alloc
			}
			fv.assume(e, or(eq(v.T, tNull), sel(al, fv.rootOf(v.T))))
		} else {
			fv.specFact(and(le(intLit(0), v.Off), le(intLit(0), v.Len), le(v.Len, v.Cap)))
		}
		return v
	}
	v := fv.loadComp(e, comp, s, idx...)
	if fv.spec == nil && t != nil {
		fv.assume(e, rangeFact(v, t))
	}
	if fv.spec != nil && t != nil {
		fv.specFact(rangeFact(v, t))
	}
	if fv.spec == nil && s == sRef {
		// anything stored in the heap was allocated before; a component that is
		// still at its entry version only holds references allocated at entry
		al := e.alloc
		if _, changed := e.heap[comp]; !changed && e.epoch == 0 && fv.entry != nil {
			al = fv.entry.alloc
		}
		fv.assume(e, or(eq(v, tNull), sel(al, fv.rootOf(v))))
	}
	return Value{K: kScalar, T: v, Type: t}
}

func (fv *FV) storeCell(e *Env, comp string, t types.Type, sortHint string, v Value, idx ...Term) {
	fv.escape(e, v) // a slice stored into the heap is reachable by others
	k, s := sortOf(t)
	if t == nil {
		k, s = kScalar, sortHint
	}
	if k == kSlice {
		if v.K != kSlice {
			if v.K == kScalar && v.T.S == tNull.S {
				v = Value{K: kSlice, Type: t, T: tNull, Off: intLit(0), Len: intLit(0), Cap: intLit(0)} // x = nil
			} else {
				v = fv.freshValue(t, "sl")
			}
		}
		fv.storeComp(e, comp+"#arr", sRef, v.T, idx...)
		fv.storeComp(e, comp+"#off", sInt, v.Off, idx...)
		fv.storeComp(e, comp+"#len", sInt, v.Len, idx...)
		fv.storeComp(e, comp+"#cap", sInt, v.Cap, idx...)
		return
	}
	if v.T.Sort != s {
		v = fv.coerce(v, s)
	}
	fv.storeComp(e, comp, s, v.T, idx...)
}

func (fv *FV) coerce(v Value, sort string) Value {
	if v.T.Sort == sort {
		return v
	}
	fv.note("sort mismatch %s vs %s: value abstracted", v.T.Sort, sort)
	return scalar(fv.s.freshConst("coerce", sort))
}

func (fv *FV) loadField(e *Env, owner types.Type, f *types.Var, r Term) Value {
	if isObjectType(f.Type()) {
		return Value{K: kScalar, T: fv.fieldAddr(owner, f, r), Type: f.Type()}
	}
	return fv.loadCell(e, fieldComp(owner, f), f.Type(), "", r)
}

func (fv *FV) storeField(e *Env, owner types.Type, f *types.Var, r Term, v Value) {
	if isObjectType(f.Type()) {
		fv.copyObject(e, fv.fieldAddr(owner, f, r), v.T, f.Type())
		return
	}
	fv.storeCell(e, fieldComp(owner, f), f.Type(), "", v, r)
}

// copyObject copies all fields of the object at src to dst (Go struct assignment).
func (fv *FV) copyObject(e *Env, dst, src Term, t types.Type) {
	if dst.S == src.S {
		return
	}
	if isBigInt(t) {
		fv.storeCell(e, "bigval", nil, sInt, fv.loadCell(e, "bigval", nil, sInt, src), dst)
		return
	}
	if a, ok := objArray(t); ok {
		fv.copyObjArray(e, a, dst, src)
		return
	}
	st := structOf(t)
	if st == nil {
		return
	}
	for i := 0; i < st.NumFields(); i++ {
		f := st.Field(i)
		if isObjectType(f.Type()) {
			fv.copyObject(e, fv.fieldAddr(t, f, dst), fv.fieldAddr(t, f, src), f.Type())
			continue
		}
		fv.storeCell(e, fieldComp(t, f), f.Type(), "", fv.loadCell(e, fieldComp(t, f), f.Type(), "", src), dst)
	}
}

// copyObjArray copies the object array at src to dst (dst[i] = src[i] for all
// i). Each leaf component C is replaced by a fresh C' with
//   C'[G(dst,i)] = C[G(src,i)]            for 0 <= i < N
//   C'[x] = C[x]                          for every x that is not some G(dst,i)
// where G(b,i) is the leaf address inside element i of the array at b. The
// second axiom recognises the addresses G(dst,i) through the inverse address
// functions, so neighbouring arrays of the same element type are untouched.
func (fv *FV) copyObjArray(e *Env, a *types.Array, dst, src Term) {
	if e.dead {
		return
	}
	if fv.spec != nil {
		return
	}
	n := a.Len()
	iv := Term{"i!ac", sInt}
	xv := Term{"x!ac", sRef}
	d0 := fv.elemAddr(a.Elem(), dst, iv)
	s0 := fv.elemAddr(a.Elem(), src, iv)
	eaName := "ea$" + sanitize(typeStr(a.Elem()))
	// leaf: forward chain applied to an element address, inverse chain applied to x
	type chain struct{ fwd func(Term) Term; inv func(Term) Term }
	var walk func(t types.Type, c chain)
	emit := func(comp, sort string, c chain) {
		old := fv.heapGet(e, comp, arrSort(sRef, sort))
		nn := fv.s.freshConst(comp, old.Sort)
		gd, gs := c.fwd(d0), c.fwd(s0)
		y := c.inv(xv)
		idx := app(sInt, eaName+"^idx", y)
		inRange := and(eq(app(sRef, eaName+"^arr", y), dst), le(intLit(0), idx), lt(idx, intLit(n)), eq(c.fwd(fv.elemAddr(a.Elem(), dst, idx)), xv))
		fv.assume(e, Term{fmt.Sprintf("(forall ((i!ac Int)) (! (=> (and (<= 0 i!ac) (< i!ac %d)) (= (select %s %s) (select %s %s))) :pattern (%s)))", n, nn.S, gd.S, old.S, gs.S, d0.S), sBool})
		fv.assume(e, Term{fmt.Sprintf("(forall ((x!ac Ref)) (! (=> (not %s) (= (select %s x!ac) (select %s x!ac))) :pattern ((select %s x!ac))))", inRange.S, nn.S, old.S, nn.S), sBool})
		fv.heapSet(e, comp, nn)
	}
	walk = func(t types.Type, c chain) {
		if isBigInt(t) {
			emit("bigval", sInt, c)
			return
		}
		if at, ok := objArray(t); ok {
			// nested object arrays: fall back to unrolled element copies
			for k := int64(0); k < n; k++ {
				dk := c.fwd(fv.elemAddr(a.Elem(), dst, intLit(k)))
				sk := c.fwd(fv.elemAddr(a.Elem(), src, intLit(k)))
				fv.copyObjArray(e, at, dk, sk)
			}
			return
		}
		st := structOf(t)
		if st == nil {
			return
		}
		for i := 0; i < st.NumFields(); i++ {
			f := st.Field(i)
			tt, ff := t, f
			if isObjectType(f.Type()) {
				name := addrFun(tt, ff)
				sub := chain{
					fwd: func(b Term) Term { return fv.fieldAddr(tt, ff, c.fwd(b)) },
					inv: func(x Term) Term { fv.fieldAddr(tt, ff, tNull); return c.inv(app(sRef, name+"^inv", x)) },
				}
				walk(f.Type(), sub)
				continue
			}
			k, srt := sortOf(f.Type())
			comp := fieldComp(t, f)
			if k == kSlice {
				emit(comp+"#arr", sRef, c)
				emit(comp+"#off", sInt, c)
				emit(comp+"#len", sInt, c)
				emit(comp+"#cap", sInt, c)
				continue
			}
			emit(comp, srt, c)
		}
	}
	walk(a.Elem(), chain{fwd: func(b Term) Term { return b }, inv: func(x Term) Term { return x }})
}

// objectEq is fieldwise equality of two objects (spec use and ==).
func (fv *FV) objectEq(e1 *Env, a Term, e2 *Env, b Term, t types.Type) Term {
	if isBigInt(t) {
		return eq(fv.loadComp(e1, "bigval", sInt, a), fv.loadComp(e2, "bigval", sInt, b))
	}
	if at, ok := objArray(t); ok {
		var cs []Term
		for i := int64(0); i < at.Len(); i++ {
			cs = append(cs, fv.objectEq(e1, fv.elemAddr(at.Elem(), a, intLit(i)), e2, fv.elemAddr(at.Elem(), b, intLit(i)), at.Elem()))
		}
		return and(cs...)
	}
	st := structOf(t)
	if st == nil {
		return eq(a, b)
	}
	var cs []Term
	for i := 0; i < st.NumFields(); i++ {
		f := st.Field(i)
		if isObjectType(f.Type()) {
			cs = append(cs, fv.objectEq(e1, fv.fieldAddr(t, f, a), e2, fv.fieldAddr(t, f, b), f.Type()))
			continue
		}
		x, y := fv.loadCellPure(e1, fieldComp(t, f), f.Type(), a), fv.loadCellPure(e2, fieldComp(t, f), f.Type(), b)
		cs = append(cs, fv.valueEq(x, y))
	}
	return and(cs...)
}

func (fv *FV) loadCellPure(e *Env, comp string, t types.Type, idx ...Term) Value {
	saved := fv.spec
	if fv.spec == nil {
		fv.spec = &specCtx{}
	}
	v := fv.loadCell(e, comp, t, "", idx...)
	fv.spec = saved
	return v
}

func (fv *FV) valueEq(a, b Value) Term {
	if a.K == kSlice || b.K == kSlice {
		if a.K != b.K {
			return tFalse
		}
		return and(eq(a.T, b.T), eq(a.Off, b.Off), eq(a.Len, b.Len))
	}
	if a.T.Sort != b.T.Sort {
		return fv.s.freshConst("eq?", sBool)
	}
	return eq(a.T, b.T)
}

// ---------------------------------------------------------------------------
// Variables.

func (fv *FV) lookup(e *Env, obj types.Object) (Value, bool) {
	if fv.spec != nil {
		if v, ok := fv.spec.bind[obj]; ok {
			return v, true
		}
	}
	for i := len(fv.binds) - 1; i >= 0; i-- {
		if v, ok := fv.binds[i][obj]; ok {
			return v, true
		}
	}
	v, ok := e.vars[obj]
	return v, ok
}

func isPkgLevel(obj types.Object) bool {
	return obj.Pkg() != nil && obj.Parent() == obj.Pkg().Scope()
}

func (fv *FV) globalVar(e *Env, v *types.Var) Value {
	name := "g$" + sanitize(shortQual(v.Pkg())+"."+v.Name())
	t := v.Type()
	if fv.eng.ghostVars[v] {
		if _, isMap := t.Underlying().(*types.Map); isMap {
			return Value{K: kScalar, T: fv.loadComp(e, "G$"+sanitize(shortQual(v.Pkg())+"."+v.Name()), ghostSort(t), tNull), Type: t}
		}
		_, srt := sortOf(t)
		return Value{K: kScalar, T: fv.loadComp(e, "G$"+sanitize(shortQual(v.Pkg())+"."+v.Name()), srt, tNull), Type: t}
	}
	if isObjectType(t) {
		c := fv.s.declConst(name, sRef)
		if !fv.globalSeen[name] {
			fv.globalSeen[name] = true
			fv.s.declFun("root", []string{sRef}, sRef)
			fv.s.assume(and(not(eq(c, tNull)), eq(fv.rootOf(c), c), sel(fv.entry.alloc, c)))
		}
		return Value{K: kScalar, T: c, Type: t}
	}
	k, s := sortOf(t)
	switch t.Underlying().(type) {
	case *types.Interface, *types.Pointer, *types.Signature:
		if t := fv.eng.sentinelAlias(v); t != nil && fv.eng.isSentinel(t) {
			return fv.globalVar(e, t) // ErrX = otherpkg.ErrX: the same error object
		}
		c := fv.s.declConst(name, s)
		if !fv.globalSeen[name] {
			fv.globalSeen[name] = true
			if fv.eng.isSentinel(v) {
				fv.s.assume(not(eq(c, tNull)))
				fv.s.assume(sel(fv.entry.alloc, fv.rootOf(c)))
				// a plain sentinel wraps nothing
				fv.errIs(c, c)
				fv.s.assume(Term{fmt.Sprintf("(forall ((t Ref)) (! (= (err_is %s t) (= %s t)) :pattern ((err_is %s t))))", c.S, c.S, c.S), sBool})
				for _, o := range fv.sentinels {
					fv.s.assume(not(eq(c, o)))
				}
				fv.sentinels = append(fv.sentinels, c)
			}
			fv.assumptionsUsed["package-level pointer/interface variables (error sentinels) are never reassigned after init"] = true
		}
		return Value{K: kScalar, T: c, Type: t}
	}
	_ = k
	return fv.loadCell(e, "G$"+sanitize(shortQual(v.Pkg())+"."+v.Name()), t, "", tNull)
}

// ghostSort: ghost variables of map type are total SMT arrays.
func ghostSort(t types.Type) string {
	if m, ok := t.Underlying().(*types.Map); ok {
		return arrSort(elemSortOf(m.Key()), ghostSort(m.Elem()))
	}
	_, s := sortOf(t)
	return s
}

// isGhostMapExpr reports whether x denotes a ghost (total) map.
func (fv *FV) isGhostMapExpr(x ast.Expr) bool {
	x = ast.Unparen(x)
	t := fv.typeOf(x)
	if t == nil {
		return false
	}
	if _, ok := t.Underlying().(*types.Map); !ok {
		return false
	}
	switch y := x.(type) {
	case *ast.Ident:
		v, ok := fv.info.ObjectOf(y).(*types.Var)
		return ok && fv.eng.ghostVars[v]
	case *ast.SelectorExpr:
		v, ok := fv.info.ObjectOf(y.Sel).(*types.Var)
		return ok && fv.eng.ghostVars[v]
	case *ast.IndexExpr:
		return fv.isGhostMapExpr(y.X)
	case *ast.CallExpr:
		if fn, _, _ := fv.calleeOf(y); fn != nil && (fn.Name() == "gh_old" || fn.Name() == "gh_upd") && len(y.Args) > 0 {
			return fv.isGhostMapExpr(y.Args[0])
		}
		if fn, _, _ := fv.calleeOf(y); fn != nil && fv.eng.isGhostFunc(fn) {
			return true
		}
	}
	return false
}

// ---------------------------------------------------------------------------
// Expressions.

func (fv *FV) expr(e *Env, x ast.Expr) Value {
	if tv, ok := fv.info.Types[x]; ok && tv.Value != nil {
		if v, ok := fv.constValue(tv.Value, tv.Type); ok {
			return v
		}
	}
	switch x := x.(type) {
	case *ast.ParenExpr:
		return fv.expr(e, x.X)
	case *ast.Ident:
		return fv.ident(e, x)
	case *ast.BasicLit:
		return fv.unknown(fv.typeOf(x), "literal")
	case *ast.UnaryExpr:
		return fv.unary(e, x)
	case *ast.BinaryExpr:
		return fv.binary(e, x)
	case *ast.StarExpr:
		return fv.load(e, fv.lvalue(e, x))
	case *ast.SelectorExpr:
		return fv.selector(e, x)
	case *ast.IndexExpr:
		return fv.index(e, x)
	case *ast.SliceExpr:
		return fv.sliceExpr(e, x)
	case *ast.CallExpr:
		return fv.call(e, x)
	case *ast.CompositeLit:
		return fv.composite(e, x)
	case *ast.TypeAssertExpr:
		v := fv.expr(e, x.X)
		return fv.typeAssert(e, v, fv.typeOf(x), x, false).Tuple[0]
	case *ast.FuncLit:
		r := fv.allocRef(e, "closure")
		fv.closures[r.S] = x
		if fv.spec == nil && fv.u != nil && fv.u.C != nil && fv.inlineDepth == 0 && fv.u.C.ClosureChecked[funcLitOrd(fv.u.Decl, x)] {
			fv.probeClosureBody(e, x)
		}
		if fv.spec == nil && fv.u != nil && fv.u.C != nil && len(fv.u.C.ClosureAccepts) > 0 {
			if cl := fv.u.C.ClosureAccepts[funcLitOrd(fv.u.Decl, x)]; cl != nil {
				fv.probeClosure(e, x, cl, r)
			}
		}
		return Value{K: kScalar, T: r, Type: fv.typeOf(x)}
	case *ast.KeyValueExpr:
		return fv.expr(e, x.Value)
	}
	return fv.unknown(fv.typeOf(x), fmt.Sprintf("%T", x))
}

func (fv *FV) ident(e *Env, id *ast.Ident) Value {
	obj := fv.info.ObjectOf(id)
	switch o := obj.(type) {
	case *types.Nil:
		t := fv.typeOf(id)
		if k, _ := sortOf(t); k == kSlice {
			return Value{K: kSlice, T: tNull, Off: intLit(0), Len: intLit(0), Cap: intLit(0), Type: t}
		}
		return Value{K: kScalar, T: tNull, Type: t}
	case *types.Const:
		if v, ok := fv.constValue(o.Val(), o.Type()); ok {
			return v
		}
	case *types.Var:
		if v, ok := fv.lookup(e, o); ok {
			if fv.boxed[o] && v.K == kScalar && v.T.Sort == sRef {
				if _, s := sortOf(o.Type()); s != sRef || fv.isBoxRef(e, o, v) {
					return fv.loadCell(e, boxComp(o.Type()), o.Type(), "", v.T)
				}
			}
			return v
		}
		if isPkgLevel(o) {
			return fv.globalVar(e, o)
		}
		if fv.spec != nil && !fv.spec.lenient {
			fv.specErr("variable " + o.Name() + " has no value here")
		}
		if fv.spec != nil && fv.spec.lenient {
			return fv.freshValue(o.Type(), o.Name()+"?")
		}
		// captured / not yet defined variable: unknown
		v := fv.freshValue(o.Type(), o.Name())
		e.vars[o] = v
		return v
	case *types.Func:
		return Value{K: kScalar, T: fv.s.declConst("fn$"+sanitize(o.FullName()), sRef), Type: o.Type()}
	}
	return fv.unknown(fv.typeOf(id), "identifier "+id.Name)
}

// isBoxRef: for boxed variables whose own sort is Ref, decide whether v is the
// box (from the environment) or the bound entry value (from a contract binding).
func (fv *FV) isBoxRef(e *Env, o types.Object, v Value) bool {
	if fv.spec != nil {
		if b, ok := fv.spec.bind[o]; ok && b.T.S == v.T.S {
			return false
		}
	}
	return true
}

func boxComp(t types.Type) string {
	return "Box$" + sanitize(elemKey(t))
}

// elemKey names a storage family for values of type t.
func elemKey(t types.Type) string {
	k, s := sortOf(t)
	if k == kSlice {
		return "slice"
	}
	return s
}

func (fv *FV) unary(e *Env, x *ast.UnaryExpr) Value {
	t := fv.typeOf(x)
	switch x.Op {
	case token.NOT:
		return Value{K: kScalar, T: not(fv.expr(e, x.X).T), Type: t}
	case token.SUB:
		v := fv.expr(e, x.X)
		if v.T.Sort == sInt {
			return fv.arith(e, x, "-", intLit(0), v.T, t)
		}
	case token.ADD:
		return fv.expr(e, x.X)
	case token.AND:
		return fv.addrOf(e, x.X, t)
	case token.XOR:
		v := fv.expr(e, x.X)
		if lo, hi, _, signed, ok := intRange(t); ok && v.T.Sort == sInt {
			_ = lo
			if !signed {
				return Value{K: kScalar, T: sub(bigLit(hi), v.T), Type: t}
			}
			return Value{K: kScalar, T: sub(intLit(-1), v.T), Type: t}
		}
	case token.ARROW:
		fv.note("channel receive abstracted")
		if fv.spec == nil {
			fv.havocAll(e)
		}
	}
	return fv.unknown(t, "unary "+x.Op.String())
}

func (fv *FV) addrOf(e *Env, x ast.Expr, t types.Type) Value {
	x = ast.Unparen(x)
	if cl, ok := x.(*ast.CompositeLit); ok {
		v := fv.composite(e, cl)
		v.Type = t
		return v
	}
	xt := fv.typeOf(x)
	if isObjectType(xt) {
		v := fv.expr(e, x) // object values are their addresses
		v.Type = t
		return v
	}
	if id, ok := x.(*ast.Ident); ok {
		if o, ok := fv.info.ObjectOf(id).(*types.Var); ok && fv.boxed[o] {
			if v, ok := fv.lookup(e, o); ok {
				return Value{K: kScalar, T: v.T, Type: t}
			}
		}
	}
	lv := fv.lvalue(e, x)
	if lv.kind == lvCell && len(lv.idx) == 1 {
		// pointer to a scalar field: use a per-field address function
		name := "pa$" + sanitize(lv.comp)
		fv.s.declFun(name, []string{sRef}, sRef)
		fv.s.axiom(name, fmt.Sprintf("(forall ((r Ref)) (! (not (= (%s r) null)) :pattern ((%s r))))", name, name))
		fv.note("address of scalar location %s: pointer identity only", lv.comp)
		return Value{K: kScalar, T: app(sRef, name, lv.idx[0]), Type: t}
	}
	return fv.unknown(t, "address-of")
}

func (fv *FV) binary(e *Env, x *ast.BinaryExpr) Value {
	t := fv.typeOf(x)
	switch x.Op {
	case token.LAND, token.LOR:
		l := fv.expr(e, x.X).T
		if fv.spec != nil || !hasCall(x.Y) {
			var r Term
			if fv.spec == nil {
				// evaluate under the guard so that safety obligations in Y see it
				g := l
				if x.Op == token.LOR {
					g = not(l)
				}
				sub := fv.withCond(e, g)
				r = fv.expr(sub, x.Y).T
				if sub.dead {
					r = tFalse
				}
			} else {
				r = fv.expr(e, x.Y).T
			}
			if x.Op == token.LAND {
				return Value{K: kScalar, T: and(l, r), Type: t}
			}
			return Value{K: kScalar, T: or(l, r), Type: t}
		}
		g := l
		if x.Op == token.LOR {
			g = not(l)
		}
		yes := fv.withCond(e, g)
		no := fv.withCond(e, not(g))
		r := fv.expr(yes, x.Y).T
		res := fv.s.freshConst("sc", sBool)
		if x.Op == token.LAND {
			fv.s.assume(implies(yes.pc, eq(res, r)))
			fv.s.assume(implies(no.pc, eq(res, tFalse)))
		} else {
			fv.s.assume(implies(yes.pc, eq(res, r)))
			fv.s.assume(implies(no.pc, eq(res, tTrue)))
		}
		m := fv.mergeEnvs([]*Env{yes, no})
		*e = *m
		return Value{K: kScalar, T: res, Type: t}
	}
	lt_ := fv.typeOf(x.X)
	a := fv.expr(e, x.X)
	b := fv.expr(e, x.Y)
	switch x.Op {
	case token.EQL, token.NEQ:
		var r Term
		switch {
		case a.K == kSlice || b.K == kSlice:
			// only comparison with nil is legal
			s := a
			if a.K != kSlice {
				s = b
			}
			fv.s.declFun("slice_isnil", []string{sRef, sInt}, sBool)
			r = sliceIsNil(s)
		case isObjectType(lt_) && fv.typeOf(x.Y) != nil && isObjectType(fv.typeOf(x.Y)):
			r = fv.objectEq(e, a.T, e, b.T, lt_)
		default:
			if a.T.Sort != b.T.Sort {
				return fv.unknown(t, "comparison of different sorts")
			}
			r = eq(a.T, b.T)
		}
		if x.Op == token.NEQ {
			r = not(r)
		}
		return Value{K: kScalar, T: r, Type: t}
	case token.LSS, token.LEQ, token.GTR, token.GEQ:
		if a.T.Sort == sInt && b.T.Sort == sInt {
			op := map[token.Token]string{token.LSS: "<", token.LEQ: "<=", token.GTR: ">", token.GEQ: ">="}[x.Op]
			return Value{K: kScalar, T: app(sBool, op, a.T, b.T), Type: t}
		}
		return fv.unknown(t, "ordered comparison on non-integers")
	}
	if a.T.Sort == sInt && b.T.Sort == sInt && a.K == kScalar && b.K == kScalar {
		return fv.arith(e, x, x.Op.String(), a.T, b.T, t)
	}
	if a.T.Sort == sStr && x.Op == token.ADD {
		return Value{K: kScalar, T: fv.strCat(a.T, b.T), Type: t}
	}
	return fv.unknown(t, "binary "+x.Op.String())
}

func sliceIsNil(s Value) Term {
	return and(eq(s.T, tNull), eq(s.Len, intLit(0)))
}

func hasCall(x ast.Expr) bool {
	found := false
	ast.Inspect(x, func(n ast.Node) bool {
		if _, ok := n.(*ast.CallExpr); ok {
			found = true
		}
		if _, ok := n.(*ast.UnaryExpr); ok && n.(*ast.UnaryExpr).Op == token.ARROW {
			found = true
		}
		return !found
	})
	return found
}

// tdiv is Go's truncated division.
func tdiv(a, b Term) Term {
	return ite(ge(a, intLit(0)),
		ite(gt(b, intLit(0)), app(sInt, "div", a, b), app(sInt, "-", app(sInt, "div", a, app(sInt, "-", b)))),
		ite(gt(b, intLit(0)), app(sInt, "-", app(sInt, "div", app(sInt, "-", a), b)), app(sInt, "div", app(sInt, "-", a), app(sInt, "-", b))))
}

func constOf(t Term) (int64, bool) {
	var n int64
	if _, err := fmt.Sscanf(t.S, "%d", &n); err == nil && fmt.Sprintf("%d", n) == t.S {
		return n, true
	}
	return 0, false
}

// arith translates an integer operation with Go's machine semantics.
func (fv *FV) arith(e *Env, at ast.Node, op string, a, b Term, t types.Type) Value {
	var r Term
	lo, hi, bits, signed, machine := intRange(t)
	if fv.spec != nil {
		machine = false
	}
	exactOK := true
	switch op {
	case "+":
		r = add(a, b)
	case "-":
		r = sub(a, b)
	case "*":
		r = mul(a, b)
	case "/":
		if fv.spec == nil {
			fv.oblige(e, "div", at, "division by zero", not(eq(b, intLit(0))))
		}
		if machine && !signed {
			r = app(sInt, "div", a, b)
		} else {
			r = tdiv(a, b)
		}
		exactOK = false
	case "%":
		if fv.spec == nil {
			fv.oblige(e, "div", at, "modulo by zero", not(eq(b, intLit(0))))
		}
		if machine && !signed {
			r = app(sInt, "mod", a, b)
		} else {
			r = sub(a, mul(b, tdiv(a, b)))
		}
		exactOK = false
	case "<<":
		if c, ok := constOf(b); ok && c >= 0 && c < 64 {
			r = mul(a, bigLit(pow2(uint(c))))
		} else {
			fv.s.declFun("shl", []string{sInt, sInt}, sInt)
			r = app(sInt, "shl", a, b)
			exactOK = false
			if machine {
				return fv.rangedUF(e, r, t)
			}
		}
	case ">>":
		if c, ok := constOf(b); ok && c >= 0 && c < 64 {
			r = app(sInt, "div", a, bigLit(pow2(uint(c))))
			exactOK = false
		} else {
			fv.s.declFun("shr", []string{sInt, sInt}, sInt)
			r = app(sInt, "shr", a, b)
			exactOK = false
			if machine {
				return fv.rangedUF(e, r, t)
			}
		}
	case "&":
		if c, ok := constOf(b); ok && c >= 0 && isPow2Minus1(c) && (!signed || !machine) {
			r = app(sInt, "mod", a, intLit(c+1))
			exactOK = false
		} else if c, ok := constOf(a); ok && c >= 0 && isPow2Minus1(c) && (!signed || !machine) {
			r = app(sInt, "mod", b, intLit(c+1))
			exactOK = false
		} else {
			return fv.bitop(e, "band", a, b, t)
		}
	case "|":
		return fv.bitop(e, "bor", a, b, t)
	case "^":
		return fv.bitop(e, "bxor", a, b, t)
	case "&^":
		return fv.bitop(e, "bandnot", a, b, t)
	default:
		return fv.unknown(t, "operator "+op)
	}
	if machine && exactOK {
		inRange := and(le(bigLit(lo), r), le(r, bigLit(hi)))
		if fv.u != nil && fv.u.C != nil && fv.u.C.Safety["overflow"] {
			fv.oblige(e, "overflow", at, "machine arithmetic "+op+" stays in range of "+typeStr(t), inRange)
		} else if !signed {
			// wrap-around semantics of unsigned arithmetic
			r = app(sInt, "mod", r, bigLit(pow2(bits)))
		} else {
			fv.assumptionsUsed["signed machine arithmetic ("+typeStr(t)+") treated as mathematical (no wrap-around) outside functions with `safety overflow`"] = true
		}
	}
	return Value{K: kScalar, T: r, Type: t}
}

func isPow2Minus1(c int64) bool { return c&(c+1) == 0 }

func (fv *FV) rangedUF(e *Env, r Term, t types.Type) Value {
	c := fv.s.freshConst("bits", sInt)
	fv.s.assume(eq(c, r))
	fv.s.assume(rangeFact(c, t))
	return Value{K: kScalar, T: c, Type: t}
}

func (fv *FV) bitop(e *Env, name string, a, b Term, t types.Type) Value {
	fv.s.declFun(name, []string{sInt, sInt}, sInt)
	r := app(sInt, name, a, b)
	if fv.spec != nil {
		return Value{K: kScalar, T: r, Type: t}
	}
	c := fv.s.freshConst("bits", sInt)
	fv.s.assume(eq(c, r))
	fv.s.assume(rangeFact(c, t))
	nonneg := and(ge(a, intLit(0)), ge(b, intLit(0)))
	switch name {
	case "band":
		fv.s.assume(implies(nonneg, and(ge(c, intLit(0)), le(c, a), le(c, b))))
	case "bor":
		fv.s.assume(implies(nonneg, and(ge(c, a), ge(c, b), le(c, add(a, b)))))
	case "bandnot":
		fv.s.assume(implies(nonneg, and(ge(c, intLit(0)), le(c, a))))
	}
	return Value{K: kScalar, T: c, Type: t}
}

// ---------------------------------------------------------------------------
// Selectors, indexing, slicing.

func (fv *FV) selector(e *Env, x *ast.SelectorExpr) Value {
	if sel, ok := fv.info.Selections[x]; ok {
		switch sel.Kind() {
		case types.FieldVal:
			return fv.load(e, fv.lvalue(e, x))
		default:
			return fv.unknown(fv.typeOf(x), "method value")
		}
	}
	// qualified identifier pkg.Name
	return fv.ident(e, x.Sel)
}

func (fv *FV) index(e *Env, x *ast.IndexExpr) Value {
	if tv, ok := fv.info.Types[x.X]; ok && tv.IsType() {
		return fv.unknown(fv.typeOf(x), "generic type instantiation")
	}
	if _, ok := fv.info.Instances[identOf(x.X)]; ok {
		return fv.expr(e, x.X)
	}
	bt := fv.typeOf(x.X)
	if lm, ok := fv.localMapOf(e, x.X); ok {
		k := fv.expr(e, x.Index)
		v, _ := fv.localMapLoad(lm, bt.Underlying().(*types.Map), k.T)
		return v
	}
	if bt != nil && fv.isGhostMapExpr(x.X) {
		m := fv.expr(e, x.X)
		k := fv.expr(e, x.Index)
		return Value{K: kScalar, T: sel(m.T, k.T), Type: fv.typeOf(x)}
	}
	if bt != nil {
		if _, isMap := bt.Underlying().(*types.Map); isMap {
			m := fv.expr(e, x.X)
			k := fv.expr(e, x.Index)
			v, _ := fv.mapLoad(e, m, bt.Underlying().(*types.Map), k)
			return v
		}
		if b, isB := bt.Underlying().(*types.Basic); isB && b.Info()&types.IsString != 0 {
			s := fv.expr(e, x.X)
			i := fv.expr(e, x.Index)
			fv.s.declFun("str_at", []string{sStr, sInt}, sInt)
			fv.s.declFun("str_len", []string{sStr}, sInt)
			fv.bounds(e, x, i.T, app(sInt, "str_len", s.T))
			return Value{K: kScalar, T: app(sInt, "str_at", s.T, i.T), Type: fv.typeOf(x)}
		}
	}
	return fv.load(e, fv.lvalue(e, x))
}

func identOf(x ast.Expr) *ast.Ident {
	switch x := x.(type) {
	case *ast.Ident:
		return x
	case *ast.SelectorExpr:
		return x.Sel
	}
	return nil
}

// bounds emits (or assumes) 0 <= i < n.
func (fv *FV) bounds(e *Env, at ast.Node, i, n Term) {
	if fv.spec != nil {
		return
	}
	c := and(le(intLit(0), i), lt(i, n))
	fv.oblige(e, "bounds", at, "index in range", c)
	fv.assume(e, c)
}

func (fv *FV) sliceExpr(e *Env, x *ast.SliceExpr) Value {
	t := fv.typeOf(x)
	bt := fv.typeOf(x.X)
	var lo, hi Term
	base := Value{}
	isStr := false
	if bt != nil {
		switch u := bt.Underlying().(type) {
		case *types.Slice:
			base = fv.expr(e, x.X)
		case *types.Array:
			base = fv.arrayAsSlice(e, x.X, u)
		case *types.Pointer:
			if a, ok := u.Elem().Underlying().(*types.Array); ok {
				fv.note("slicing through pointer-to-array abstracted")
				_ = a
			}
			return fv.unknown(t, "slice of pointer to array")
		case *types.Basic:
			isStr = true
		}
	}
	if isStr {
		s := fv.expr(e, x.X)
		fv.s.declFun("str_len", []string{sStr}, sInt)
		fv.s.declFun("str_sub", []string{sStr, sInt, sInt}, sStr)
		n := app(sInt, "str_len", s.T)
		lo, hi = intLit(0), n
		if x.Low != nil {
			lo = fv.expr(e, x.Low).T
		}
		if x.High != nil {
			hi = fv.expr(e, x.High).T
		}
		c := and(le(intLit(0), lo), le(lo, hi), le(hi, n))
		fv.oblige(e, "bounds", x, "string slice bounds", c)
		fv.assume(e, c)
		r := app(sStr, "str_sub", s.T, lo, hi)
		fv.assume(e, eq(app(sInt, "str_len", r), sub(hi, lo)))
		return Value{K: kScalar, T: r, Type: t}
	}
	if base.K != kSlice {
		return fv.unknown(t, "slice expression base")
	}
	lo, hi = intLit(0), base.Len
	if x.Low != nil {
		lo = fv.expr(e, x.Low).T
	}
	if x.High != nil {
		hi = fv.expr(e, x.High).T
	}
	capT := base.Cap
	if x.Max != nil {
		mx := fv.expr(e, x.Max).T
		c := and(le(hi, mx), le(mx, base.Cap))
		fv.oblige(e, "bounds", x, "slice max in range", c)
		fv.assume(e, c)
		capT = mx
	}
	c := and(le(intLit(0), lo), le(lo, hi), le(hi, base.Cap))
	if fv.spec == nil {
		fv.oblige(e, "bounds", x, "slice bounds in range", c)
		fv.assume(e, c)
	}
	return Value{K: kSlice, T: base.T, Off: add(base.Off, lo), Len: sub(hi, lo), Cap: sub(capT, lo), Type: t, Inner: base.Inner}
}

// arrayAsSlice views an array-typed expression as a slice over a fresh backing
// array holding the same contents (writes through the slice are not
// propagated back; noted).
func (fv *FV) arrayAsSlice(e *Env, x ast.Expr, at *types.Array) Value {
	if _, ok := objArray(fv.typeOf(x)); ok {
		// an array of objects is addressed in place: the view shares the elements
		lv := fv.lvalue(e, x)
		if lv.kind == lvObject {
			ln := intLit(at.Len())
			return Value{K: kSlice, T: lv.addr, Off: intLit(0), Len: ln, Cap: ln, Type: types.NewSlice(at.Elem())}
		}
		return fv.freshValue(types.NewSlice(at.Elem()), "arrslice")
	}
	v := fv.expr(e, x)
	es := elemSortOf(at.Elem())
	if v.T.Sort == sBlob {
		v.T = app(arrSort(sInt, sInt), "blob_arr", v.T)
	}
	if v.T.Sort != arrSort(sInt, es) {
		return fv.freshValue(types.NewSlice(at.Elem()), "arrslice")
	}
	if fv.spec != nil {
		// contract expressions are pure: a view carrying its contents directly
		ln := intLit(at.Len())
		return Value{K: kSlice, T: tNull, Off: intLit(0), Len: ln, Cap: ln, Inner: v.T, Type: types.NewSlice(at.Elem())}
	}
	r := fv.allocRef(e, "arrview")
	comp := "E$" + sanitize(elemKey(at.Elem()))
	a := fv.heapGet(e, comp, cellSort([]string{sRef, sInt}, es))
	n := fv.s.freshConst(comp, a.Sort)
	fv.s.assume(eq(n, store(a, r, v.T)))
	fv.heapSet(e, comp, n)
	fv.note("array viewed as slice: writes through the slice are not propagated back to the array")
	ln := intLit(at.Len())
	return Value{K: kSlice, T: r, Off: intLit(0), Len: ln, Cap: ln, Type: types.NewSlice(at.Elem())}
}

// ---------------------------------------------------------------------------
// Lvalues.

func (fv *FV) lvalue(e *Env, x ast.Expr) LV {
	switch x := x.(type) {
	case *ast.ParenExpr:
		return fv.lvalue(e, x.X)
	case *ast.Ident:
		if x.Name == "_" {
			return LV{kind: lvBlank}
		}
		obj := fv.info.ObjectOf(x)
		if v, ok := obj.(*types.Var); ok {
			if isPkgLevel(v) && fv.eng.ghostVars[v] {
				return LV{kind: lvCell, comp: "G$" + sanitize(shortQual(v.Pkg())+"."+v.Name()), idx: []Term{tNull}, typ: v.Type(), sort: ghostSort(v.Type())}
			}
			if isPkgLevel(v) {
				if isObjectType(v.Type()) {
					return LV{kind: lvObject, addr: fv.globalVar(e, v).T, typ: v.Type()}
				}
				switch v.Type().Underlying().(type) {
				case *types.Interface, *types.Pointer, *types.Signature:
					if fv.u != nil && strings.HasPrefix(fv.u.ifaceKey, "init.") {
						return LV{kind: lvGlobalInit, obj: v, typ: v.Type()}
					}
					return LV{kind: lvUnknown, typ: v.Type()}
				}
				return LV{kind: lvCell, comp: "G$" + sanitize(shortQual(v.Pkg())+"."+v.Name()), idx: []Term{tNull}, typ: v.Type()}
			}
			if fv.boxed[v] {
				if cur, ok := fv.lookup(e, v); ok {
					return LV{kind: lvCell, comp: boxComp(v.Type()), idx: []Term{cur.T}, typ: v.Type()}
				}
			}
			return LV{kind: lvVar, obj: v, typ: v.Type()}
		}
	case *ast.StarExpr:
		p := fv.expr(e, x.X)
		t := fv.typeOf(x)
		if strings.HasPrefix(p.T.S, "(pa$") {
			// pointer to a scalar/slice field taken with &x.f: resolve back to the field
			body := p.T.S[len("(pa$") : len(p.T.S)-1]
			if i := strings.IndexByte(body, ' '); i > 0 {
				return LV{kind: lvCell, comp: body[:i], idx: []Term{{body[i+1:], sRef}}, typ: t}
			}
		}
		fv.nilCheck(e, x, p.T)
		if isObjectType(t) {
			return LV{kind: lvObject, addr: p.T, typ: t}
		}
		return LV{kind: lvCell, comp: boxComp(t), idx: []Term{p.T}, typ: t}
	case *ast.SelectorExpr:
		sel, ok := fv.info.Selections[x]
		if !ok {
			// qualified global
			return fv.lvalue(e, x.Sel)
		}
		if sel.Kind() != types.FieldVal {
			break
		}
		base := fv.expr(e, x.X)
		cur := base.T
		curT := sel.Recv()
		idx := sel.Index()
		for n, i := range idx {
			if p, ok := curT.Underlying().(*types.Pointer); ok {
				fv.nilCheck(e, x, cur)
				curT = p.Elem()
			}
			st, ok := curT.Underlying().(*types.Struct)
			if !ok {
				return LV{kind: lvUnknown, typ: fv.typeOf(x)}
			}
			f := st.Field(i)
			if n == len(idx)-1 {
				if isObjectType(f.Type()) {
					return LV{kind: lvObject, addr: fv.fieldAddr(curT, f, cur), typ: f.Type()}
				}
				return LV{kind: lvCell, comp: fieldComp(curT, f), idx: []Term{cur}, typ: f.Type()}
			}
			cur = fv.loadField(e, curT, f, cur).T
			curT = f.Type()
		}
	case *ast.IndexExpr:
		bt := fv.typeOf(x.X)
		if bt == nil {
			break
		}
		switch u := bt.Underlying().(type) {
		case *types.Slice:
			s := fv.expr(e, x.X)
			i := fv.expr(e, x.Index)
			if s.K != kSlice {
				break
			}
			fv.bounds(e, x, i.T, s.Len)
			pos := add(s.Off, i.T)
			if isObjectType(u.Elem()) {
				return LV{kind: lvObject, addr: fv.elemAddr(u.Elem(), s.T, pos), typ: u.Elem()}
			}
			return LV{kind: lvCell, comp: "E$" + sanitize(elemKey(u.Elem())), idx: []Term{s.T, pos}, typ: u.Elem()}
		case *types.Map:
			if _, ok := fv.localMapOf(e, x.X); ok {
				k := fv.expr(e, x.Index)
				id := ast.Unparen(x.X).(*ast.Ident)
				return LV{kind: lvLocalMap, obj: fv.info.ObjectOf(id), elemI: k.T, typ: u.Elem(), inner: &LV{typ: bt}}
			}
			m := fv.expr(e, x.X)
			k := fv.expr(e, x.Index)
			return LV{kind: lvCell, comp: mapValComp(u), idx: []Term{m.T, fv.mapKey(k)}, typ: u.Elem(), obj: nil, inner: &LV{typ: bt}}
		case *types.Array:
			inner := fv.lvalue(e, x.X)
			i := fv.expr(e, x.Index)
			fv.bounds(e, x, i.T, intLit(u.Len()))
			if _, ok := objArray(bt); ok {
				if inner.kind == lvObject {
					return LV{kind: lvObject, addr: fv.elemAddr(u.Elem(), inner.addr, i.T), typ: u.Elem()}
				}
				return LV{kind: lvUnknown, typ: u.Elem()}
			}
			return LV{kind: lvArrElem, inner: &inner, elemI: i.T, typ: u.Elem()}
		case *types.Pointer:
			if a, ok := u.Elem().Underlying().(*types.Array); ok {
				p := fv.expr(e, x.X)
				i := fv.expr(e, x.Index)
				fv.bounds(e, x, i.T, intLit(a.Len()))
				inner := LV{kind: lvCell, comp: boxComp(u.Elem()), idx: []Term{p.T}, typ: u.Elem()}
				return LV{kind: lvArrElem, inner: &inner, elemI: i.T, typ: a.Elem()}
			}
		}
	}
	return LV{kind: lvUnknown, typ: fv.typeOf(x)}
}

func (fv *FV) nilCheck(e *Env, at ast.Node, p Term) {
	if at == nil {
		at = &ast.Ident{}
	}
	if fv.spec != nil || p.Sort != sRef {
		return
	}
	c := not(eq(p, tNull))
	fv.oblige(e, "nil", at, "pointer is not nil", c)
	fv.assume(e, c)
}

func (fv *FV) load(e *Env, lv LV) Value {
	switch lv.kind {
	case lvVar:
		if v, ok := fv.lookup(e, lv.obj); ok {
			return v
		}
		v := fv.freshValue(lv.typ, lv.obj.Name())
		e.vars[lv.obj] = v
		return v
	case lvCell:
		if lv.inner != nil && len(lv.idx) == 2 && strings.HasPrefix(lv.comp, "MV$") {
			// map element read through an lvalue
			mt := lv.inner.typ.Underlying().(*types.Map)
			present := and(not(eq(lv.idx[0], tNull)), sel(sel(fv.heapGet(e, mapDomComp(mt), cellSort([]string{sRef, lv.idx[1].Sort}, sBool)), lv.idx[0]), lv.idx[1]))
			v := fv.loadCell(e, lv.comp, lv.typ, "", lv.idx...)
			z := fv.zeroValue(e, lv.typ)
			if v.K == kScalar && z.T.Sort == v.T.Sort {
				v.T = ite(present, v.T, z.T)
			}
			return v
		}
		if lv.sort != "" {
			return Value{K: kScalar, T: fv.loadComp(e, lv.comp, lv.sort, lv.idx...), Type: lv.typ}
		}
		return fv.loadCell(e, lv.comp, lv.typ, "", lv.idx...)
	case lvObject:
		return Value{K: kScalar, T: lv.addr, Type: lv.typ}
	case lvLocalMap:
		if m, ok := fv.lookup(e, lv.obj); ok && m.K == kMap {
			v, _ := fv.localMapLoad(m, lv.inner.typ.Underlying().(*types.Map), lv.elemI)
			return v
		}
	case lvArrElem:
		arr := fv.load(e, *lv.inner)
		_, es := sortOf(lv.typ)
		if arr.T.Sort == sBlob {
			v := app(sInt, "blob_at", arr.T, lv.elemI)
			if fv.spec == nil {
				fv.assume(e, rangeFact(v, lv.typ)) // elements of a byte array are bytes
			}
			return Value{K: kScalar, T: v, Type: lv.typ}
		}
		if arr.T.Sort == arrSort(sInt, es) {
			v := sel(arr.T, lv.elemI)
			if fv.spec == nil {
				fv.assume(e, rangeFact(v, lv.typ))
			}
			return Value{K: kScalar, T: v, Type: lv.typ}
		}
	}
	return fv.unknown(lv.typ, "load from unsupported location")
}

func (fv *FV) storeLV(e *Env, lv LV, v Value) {
	if e.dead {
		return
	}
	switch lv.kind {
	case lvBlank:
	case lvGlobalInit:
		if gv, ok := lv.obj.(*types.Var); ok && v.K == kScalar {
			g := fv.globalVar(e, gv)
			if g.K == kScalar && g.T.Sort == v.T.Sort {
				fv.assume(e, eq(g.T, v.T))
			}
		}
	case lvVar:
		if fv.localMaps[lv.obj] {
			if v.K != kMap {
				mt := lv.typ.Underlying().(*types.Map)
				if fv.freshMapRefs[v.T.S] {
					v = fv.emptyLocalMap(mt)
				} else {
					v = fv.freshLocalMap(mt, lv.obj.Name())
				}
			}
			e.vars[lv.obj] = v
			return
		}
		if isObjectType(lv.typ) {
			// struct assignment to a local: copy into the local's object
			if cur, ok := e.vars[lv.obj]; ok {
				fv.copyObject(e, cur.T, v.T, lv.typ)
				return
			}
			r := fv.allocRef(e, lv.obj.Name())
			fv.copyObject(e, r, v.T, lv.typ)
			e.vars[lv.obj] = Value{K: kScalar, T: r, Type: lv.typ}
			return
		}
		v.Type = lv.typ
		k, s := sortOf(lv.typ)
		if k == kScalar && v.K == kScalar && v.T.Sort != s {
			v = fv.coerce(v, s)
		}
		if k == kSlice && v.K != kSlice {
			v = fv.freshValue(lv.typ, "sl")
		}
		if v.K == kScalar && len(v.T.S) > 48 {
			n := fv.s.freshConst(lv.obj.Name(), v.T.Sort)
			fv.s.assume(eq(n, v.T))
			v.T = n
		}
		e.vars[lv.obj] = v
	case lvCell:
		if lv.inner != nil && strings.HasPrefix(lv.comp, "MV$") {
			fv.mapStore(e, lv.idx[0], lv.inner.typ.Underlying().(*types.Map), lv.idx[1], v)
			return
		}
		if lv.sort != "" {
			fv.storeComp(e, lv.comp, lv.sort, v.T, lv.idx...)
			return
		}
		fv.storeCell(e, lv.comp, lv.typ, "", v, lv.idx...)
	case lvObject:
		fv.copyObject(e, lv.addr, v.T, lv.typ)
	case lvLocalMap:
		if m, ok := e.vars[lv.obj]; ok && m.K == kMap {
			present := sel(m.T, lv.elemI)
			_, es := arrParts(m.Off.Sort)
			if v.T.Sort != es {
				v = fv.coerce(v, es)
			}
			nm := m
			nm.Len = fv.nameIfBig("len", ite(present, m.Len, add(m.Len, intLit(1))))
			nm.T = fv.nameIfBig("dom", store(m.T, lv.elemI, tTrue))
			nm.Off = fv.nameIfBig("val", store(m.Off, lv.elemI, v.T))
			e.vars[lv.obj] = nm
			return
		}
		fv.note("store to local map in unexpected state")
	case lvArrElem:
		arr := fv.load(e, *lv.inner)
		_, es := sortOf(lv.typ)
		if arr.T.Sort == sBlob && v.T.Sort == sInt {
			fv.storeLV(e, *lv.inner, Value{K: kScalar, T: app(sBlob, "blob_set", arr.T, lv.elemI, v.T), Type: lv.inner.typ})
			return
		}
		if arr.T.Sort == arrSort(sInt, es) && v.T.Sort == es {
			fv.storeLV(e, *lv.inner, Value{K: kScalar, T: store(arr.T, lv.elemI, v.T), Type: lv.inner.typ})
			return
		}
		fv.note("store to unsupported array element: location havocked")
		fv.storeLV(e, *lv.inner, fv.freshValue(lv.inner.typ, "arr"))
	default:
		fv.note("store to unsupported location: heap havocked")
		fv.havocAll(e)
	}
}

// ---------------------------------------------------------------------------
// Maps.

func mapKeySort(m *types.Map) string { return elemSortOf(m.Key()) }

func mapDomComp(m *types.Map) string { return "MD$" + sanitize(mapKeySort(m)) }
func mapValComp(m *types.Map) string {
	return "MV$" + sanitize(mapKeySort(m)) + "$" + sanitize(elemKey(m.Elem()))
}

func (fv *FV) mapKey(k Value) Term { return k.T }

func (fv *FV) mapDom(e *Env, m Term, mt *types.Map) Term {
	return sel(fv.heapGet(e, mapDomComp(mt), cellSort([]string{sRef, mapKeySort(mt)}, sBool)), m)
}

func (fv *FV) mapLen(e *Env, m Term) Term {
	return fv.loadComp(e, "ML", sInt, m)
}

// mapLoad returns (value or zero, present).
func (fv *FV) mapLoad(e *Env, m Value, mt *types.Map, k Value) (Value, Term) {
	present := and(not(eq(m.T, tNull)), sel(fv.mapDom(e, m.T, mt), k.T))
	if isObjectType(mt.Elem()) {
		v := fv.loadCell(e, mapValComp(mt), nil, sRef, m.T, k.T)
		v.Type = mt.Elem()
		return v, present
	}
	v := fv.loadCell(e, mapValComp(mt), mt.Elem(), "", m.T, k.T)
	if v.K == kScalar {
		z := fv.zero(v.T.Sort)
		v.T = ite(present, v.T, z)
	} else {
		v.T, v.Len, v.Off, v.Cap = ite(present, v.T, tNull), ite(present, v.Len, intLit(0)), ite(present, v.Off, intLit(0)), ite(present, v.Cap, intLit(0))
	}
	return v, present
}

func (fv *FV) mapStore(e *Env, m Term, mt *types.Map, k Term, v Value) {
	if e.dead {
		return
	}
	fv.nilCheck(e, nil, m) // assignment to an entry of a nil map panics
	ks := mapKeySort(mt)
	domSort := cellSort([]string{sRef, ks}, sBool)
	dom := fv.heapGet(e, mapDomComp(mt), domSort)
	present := sel(sel(dom, m), k)
	oldLen := fv.mapLen(e, m)
	fv.storeComp(e, "ML", sInt, ite(present, oldLen, add(oldLen, intLit(1))), m)
	nd := fv.s.freshConst(mapDomComp(mt), domSort)
	fv.s.assume(eq(nd, store(dom, m, store(sel(dom, m), k, tTrue))))
	fv.heapSet(e, mapDomComp(mt), nd)
	if isObjectType(mt.Elem()) {
		// by-value struct stored in a map: store an immutable copy
		c := fv.allocRef(e, "mapval")
		fv.copyObject(e, c, v.T, mt.Elem())
		fv.storeCell(e, mapValComp(mt), nil, sRef, scalar(c), m, k)
		return
	}
	fv.storeCell(e, mapValComp(mt), mt.Elem(), "", v, m, k)
}

func (fv *FV) mapDelete(e *Env, m Term, mt *types.Map, k Term) {
	if e.dead {
		return
	}
	ks := mapKeySort(mt)
	domSort := cellSort([]string{sRef, ks}, sBool)
	dom := fv.heapGet(e, mapDomComp(mt), domSort)
	present := sel(sel(dom, m), k)
	oldLen := fv.mapLen(e, m)
	fv.storeComp(e, "ML", sInt, ite(present, sub(oldLen, intLit(1)), oldLen), m)
	nd := fv.s.freshConst(mapDomComp(mt), domSort)
	fv.s.assume(eq(nd, store(dom, m, store(sel(dom, m), k, tFalse))))
	fv.heapSet(e, mapDomComp(mt), nd)
}

// ---------------------------------------------------------------------------
// Composite literals and type assertions.

func (fv *FV) composite(e *Env, x *ast.CompositeLit) Value {
	t := fv.typeOf(x)
	if t == nil {
		return fv.unknown(nil, "composite literal")
	}
	bt := deref(t)
	switch u := bt.Underlying().(type) {
	case *types.Struct:
		r := fv.allocRef(e, "lit")
		fv.s.assume(eq(fv.dynOf(r), fv.dynTag(types.NewPointer(bt))))
		// evaluate field values first, then zero + set
		type fv_ struct {
			f *types.Var
			v Value
		}
		var sets []fv_
		for i, el := range x.Elts {
			if kv, ok := el.(*ast.KeyValueExpr); ok {
				id, _ := kv.Key.(*ast.Ident)
				if id == nil {
					continue
				}
				for j := 0; j < u.NumFields(); j++ {
					if u.Field(j).Name() == id.Name {
						sets = append(sets, fv_{u.Field(j), fv.expr(e, kv.Value)})
					}
				}
			} else if i < u.NumFields() {
				sets = append(sets, fv_{u.Field(i), fv.expr(e, el)})
			}
		}
		fv.zeroObject(e, r, bt)
		for _, s := range sets {
			fv.storeField(e, bt, s.f, r, s.v)
		}
		return Value{K: kScalar, T: r, Type: t}
	case *types.Slice:
		n := int64(len(x.Elts))
		keyed := false
		for _, el := range x.Elts {
			if _, ok := el.(*ast.KeyValueExpr); ok {
				keyed = true
			}
		}
		if keyed {
			return fv.unknown(t, "keyed slice literal")
		}
		r := fv.allocRef(e, "slit")
		for i, el := range x.Elts {
			v := fv.expr(e, el)
			if isObjectType(u.Elem()) {
				fv.copyObject(e, fv.elemAddr(u.Elem(), r, intLit(int64(i))), v.T, u.Elem())
			} else {
				fv.storeCell(e, "E$"+sanitize(elemKey(u.Elem())), u.Elem(), "", v, r, intLit(int64(i)))
			}
		}
		return Value{K: kSlice, T: r, Off: intLit(0), Len: intLit(n), Cap: intLit(n), Type: t}
	case *types.Map:
		r := fv.allocRef(e, "mlit")
		fv.initEmptyMap(e, r, u)
		if len(x.Elts) == 0 {
			fv.freshMapRefs[r.S] = true
		}
		for _, el := range x.Elts {
			if kv, ok := el.(*ast.KeyValueExpr); ok {
				k := fv.expr(e, kv.Key)
				v := fv.expr(e, kv.Value)
				fv.mapStore(e, r, u, k.T, v)
			}
		}
		return Value{K: kScalar, T: r, Type: t}
	case *types.Array:
		_, s := sortOf(bt)
		if s == sBlob {
			cur := Term{"blob_zero", sBlob}
			for i, el := range x.Elts {
				if _, ok := el.(*ast.KeyValueExpr); ok {
					return fv.unknown(t, "keyed array literal")
				}
				v := fv.expr(e, el)
				if v.T.Sort != sInt {
					return fv.unknown(t, "array literal element")
				}
				cur = app(sBlob, "blob_set", cur, intLit(int64(i)), v.T)
			}
			return Value{K: kScalar, T: cur, Type: t}
		}
		if strings.HasPrefix(s, "(Array ") {
			_, es := arrParts(s)
			cur := zeroTerm(s)
			if es == sStr {
				return fv.unknown(t, "array of strings literal")
			}
			for i, el := range x.Elts {
				if _, ok := el.(*ast.KeyValueExpr); ok {
					return fv.unknown(t, "keyed array literal")
				}
				v := fv.expr(e, el)
				if v.T.Sort != es {
					return fv.unknown(t, "array literal element")
				}
				cur = store(cur, intLit(int64(i)), v.T)
			}
			return Value{K: kScalar, T: cur, Type: t}
		}
	}
	return fv.unknown(t, "composite literal of "+typeStr(t))
}

func (fv *FV) initEmptyMap(e *Env, r Term, mt *types.Map) {
	ks := mapKeySort(mt)
	domSort := cellSort([]string{sRef, ks}, sBool)
	dom := fv.heapGet(e, mapDomComp(mt), domSort)
	nd := fv.s.freshConst(mapDomComp(mt), domSort)
	fv.s.assume(eq(nd, store(dom, r, Term{fmt.Sprintf("((as const %s) false)", arrSort(ks, sBool)), arrSort(ks, sBool)})))
	fv.heapSet(e, mapDomComp(mt), nd)
	fv.storeComp(e, "ML", sInt, intLit(0), r)
}

// dynType is the dynamic type tag of an interface value.
func (fv *FV) dynTag(t types.Type) Term {
	// stable tag: FNV-1a of the type string (no shared state between functions)
	h := fnv.New32a()
	h.Write([]byte(typeStr(t)))
	return intLit(int64(h.Sum32()) + 1)
}

func (fv *FV) dynOf(r Term) Term {
	fv.s.declFun("dyn", []string{sRef}, sInt)
	return app(sInt, "dyn", r)
}

// typeAssert returns (value, ok). For the single-value form a failed
// assertion panics (obligation kind "assert-type").
func (fv *FV) typeAssert(e *Env, v Value, target types.Type, at ast.Node, commaOk bool) Value {
	okT := Term{}
	if _, isIface := target.Underlying().(*types.Interface); isIface {
		okT = fv.s.freshConst("implements", sBool)
		fv.s.assume(implies(okT, not(eq(v.T, tNull))))
	} else {
		okT = and(not(eq(v.T, tNull)), eq(fv.dynOf(v.T), fv.dynTag(target)))
	}
	var out Value
	k, s := sortOf(target)
	if k == kScalar && s == sRef {
		out = Value{K: kScalar, T: v.T, Type: target}
		if commaOk {
			out.T = ite(okT, v.T, tNull)
		}
	} else {
		out = fv.freshValue(target, "unboxed")
	}
	if !commaOk {
		fv.oblige(e, "assert-type", at, "type assertion to "+typeStr(target)+" succeeds", okT)
		fv.assume(e, okT)
	}
	return Value{K: kTuple, Tuple: []Value{out, {K: kScalar, T: okT}}}
}

// ---------------------------------------------------------------------------
// Owned local maps: a map created in the function and used only through
// indexing, len, delete and range is a pure value (domain, values, size).

func (fv *FV) nameIfBig(base string, t Term) Term {
	if len(t.S) < 64 {
		return t
	}
	n := fv.s.freshConst(base, t.Sort)
	fv.s.assume(eq(n, t))
	return n
}

func (fv *FV) localMapOf(e *Env, x ast.Expr) (Value, bool) {
	id, ok := ast.Unparen(x).(*ast.Ident)
	if !ok {
		return Value{}, false
	}
	o := fv.info.ObjectOf(id)
	if o == nil || !fv.localMaps[o] {
		return Value{}, false
	}
	v, ok := fv.lookup(e, o)
	if !ok || v.K != kMap {
		return Value{}, false
	}
	return v, true
}

func (fv *FV) emptyLocalMap(mt *types.Map) Value {
	ks := mapKeySort(mt)
	es := elemSortOf(mt.Elem())
	ds, vs := arrSort(ks, sBool), arrSort(ks, es)
	return Value{K: kMap, T: Term{fmt.Sprintf("((as const %s) false)", ds), ds}, Off: Term{fmt.Sprintf("((as const %s) %s)", vs, fv.zero(es).S), vs}, Len: intLit(0), Type: mt}
}

func (fv *FV) freshLocalMap(mt *types.Map, base string) Value {
	ks := mapKeySort(mt)
	es := elemSortOf(mt.Elem())
	v := Value{K: kMap, T: fv.s.freshConst(base+".dom", arrSort(ks, sBool)), Off: fv.s.freshConst(base+".val", arrSort(ks, es)), Len: fv.s.freshConst(base+".len", sInt), Type: mt}
	fv.s.assume(le(intLit(0), v.Len))
	fv.localMapCardFacts(&Env{pc: tTrue}, v)
	return v
}

func (fv *FV) localMapLoad(m Value, mt *types.Map, k Term) (Value, Term) {
	present := sel(m.T, k)
	_, es := arrParts(m.Off.Sort)
	v := ite(present, sel(m.Off, k), fv.zero(es))
	return Value{K: kScalar, T: v, Type: mt.Elem()}, present
}

func (fv *FV) localMapCardFacts(e *Env, m Value) {
	ks, _ := arrParts(m.T.Sort)
	dom, l := m.T, m.Len
	fv.assume(e, Term{fmt.Sprintf("(=> (<= %s 0) (forall ((k %s)) (! (not (select %s k)) :pattern ((select %s k)))))", l.S, ks, dom.S, dom.S), sBool})
	fv.assume(e, Term{fmt.Sprintf("(=> (<= %s 1) (forall ((a %s) (b %s)) (! (=> (and (select %s a) (select %s b)) (= a b)) :pattern ((select %s a) (select %s b)))))", l.S, ks, ks, dom.S, dom.S, dom.S, dom.S), sBool})
	fv.assume(e, Term{fmt.Sprintf("(forall ((a %s) (b %s)) (! (=> (and (select %s a) (select %s b) (not (= a b))) (>= %s 2)) :pattern ((select %s a) (select %s b))))", ks, ks, dom.S, dom.S, l.S, dom.S, dom.S), sBool})
	fv.assume(e, Term{fmt.Sprintf("(forall ((a %s)) (! (=> (select %s a) (>= %s 1)) :pattern ((select %s a))))", ks, dom.S, l.S, dom.S), sBool})
	fv.trustedUsed["Go map: len(m) is the cardinality of its key set (consequences for len<=0, len<=1, len>=2 assumed)"] = true
}

// findLocalMaps marks map-typed locals that never escape.
func (fv *FV) findLocalMaps(body *ast.BlockStmt) {
	cand := map[types.Object]bool{}
	bad := map[types.Object]bool{}
	var stack []ast.Node
	ast.Inspect(body, func(n ast.Node) bool {
		if n == nil {
			stack = stack[:len(stack)-1]
			return true
		}
		defer func() { stack = append(stack, n) }()
		id, ok := n.(*ast.Ident)
		if !ok {
			return true
		}
		o, ok := fv.info.ObjectOf(id).(*types.Var)
		if !ok || isPkgLevel(o) || o.IsField() {
			return true
		}
		mt, ok := o.Type().Underlying().(*types.Map)
		if !ok {
			return true
		}
		if k, _ := sortOf(mt.Elem()); k != kScalar || isObjectType(mt.Elem()) {
			return true
		}
		// parameters and results escape by definition
		sig := fv.u.Fn.Type().(*types.Signature)
		for i := 0; i < sig.Params().Len(); i++ {
			if sig.Params().At(i) == o {
				bad[o] = true
			}
		}
		for i := 0; i < sig.Results().Len(); i++ {
			if sig.Results().At(i) == o {
				bad[o] = true
			}
		}
		cand[o] = true
		if len(stack) == 0 {
			bad[o] = true
			return true
		}
		parent := stack[len(stack)-1]
		switch p := parent.(type) {
		case *ast.IndexExpr:
			if p.X != id {
				bad[o] = true
			}
		case *ast.RangeStmt:
			if p.X != id {
				bad[o] = true
			}
		case *ast.CallExpr:
			fn, isId := p.Fun.(*ast.Ident)
			if !isId || (fn.Name != "len" && fn.Name != "delete") || len(p.Args) == 0 || p.Args[0] != id {
				bad[o] = true
			} else if _, isB := fv.info.Uses[fn].(*types.Builtin); !isB {
				bad[o] = true
			}
		case *ast.AssignStmt:
			okInit := false
			for i, l := range p.Lhs {
				if l == id && i < len(p.Rhs) && len(p.Lhs) == len(p.Rhs) && isMapInit(p.Rhs[i]) {
					okInit = true
				}
			}
			if !okInit {
				bad[o] = true
			}
		case *ast.ValueSpec:
			okInit := false
			for i, nm := range p.Names {
				if nm == id && (len(p.Values) == 0 || (i < len(p.Values) && isMapInit(p.Values[i]))) {
					okInit = true
				}
			}
			if !okInit {
				bad[o] = true
			}
		default:
			bad[o] = true
		}
		return true
	})
	for o := range cand {
		if !bad[o] {
			fv.localMaps[o] = true
		}
	}
}

func isMapInit(x ast.Expr) bool {
	x = ast.Unparen(x)
	switch y := x.(type) {
	case *ast.CallExpr:
		if id, ok := y.Fun.(*ast.Ident); ok && id.Name == "make" {
			return true
		}
	case *ast.CompositeLit:
		return true
	}
	return false
}

// strCat is string concatenation: uninterpreted, with its length.
func (fv *FV) strCat(a, b Term) Term {
	fv.s.declFun("str_cat", []string{sStr, sStr}, sStr)
	fv.s.declFun("str_len", []string{sStr}, sInt)
	r := app(sStr, "str_cat", a, b)
	fv.s.assume(and(eq(app(sInt, "str_len", r), add(app(sInt, "str_len", a), app(sInt, "str_len", b))),
		le(intLit(0), app(sInt, "str_len", a)), le(intLit(0), app(sInt, "str_len", b))))
	return r
}
