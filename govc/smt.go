package main

// SMT term construction, query emission and the solver portfolio.

import (
	"bytes"
	"context"
	"fmt"
	"os"
	"os/exec"
	"path/filepath"
	"regexp"
	"sort"
	"strings"
	"sync"
	"time"
)

// Term is an SMT-LIB s-expression together with its sort.
type Term struct {
	S    string
	Sort string
}

const (
	sInt  = "Int"
	sBool = "Bool"
	sRef  = "Ref"
	sStr  = "Str"
	sBlob = "Blob"
	sReal = "Real"
)

func arrSort(idx, elem string) string { return "(Array " + idx + " " + elem + ")" }

// arrElem returns the element sort of an array sort string.
func arrParts(s string) (idx, elem string) {
	// "(Array I E)" where I and E may themselves be parenthesised.
	body := strings.TrimSuffix(strings.TrimPrefix(s, "(Array "), ")")
	depth := 0
	for i, c := range body {
		switch c {
		case '(':
			depth++
		case ')':
			depth--
		case ' ':
			if depth == 0 {
				return body[:i], body[i+1:]
			}
		}
	}
	panic("bad array sort " + s)
}

var (
	tTrue  = Term{"true", sBool}
	tFalse = Term{"false", sBool}
	tNull  = Term{"null", sRef}
)

func app(sort, f string, args ...Term) Term {
	var b strings.Builder
	b.WriteByte('(')
	b.WriteString(f)
	for _, a := range args {
		b.WriteByte(' ')
		b.WriteString(a.S)
	}
	b.WriteByte(')')
	return Term{b.String(), sort}
}

func intLit(n int64) Term {
	if n < 0 {
		return Term{fmt.Sprintf("(- %d)", -n), sInt}
	}
	return Term{fmt.Sprintf("%d", n), sInt}
}

func intLitStr(dec string) Term {
	if strings.HasPrefix(dec, "-") {
		return Term{"(- " + dec[1:] + ")", sInt}
	}
	return Term{dec, sInt}
}

func boolLit(b bool) Term {
	if b {
		return tTrue
	}
	return tFalse
}

func and(ts ...Term) Term {
	var xs []Term
	for _, t := range ts {
		if t.S == "true" {
			continue
		}
		if t.S == "false" {
			return tFalse
		}
		xs = append(xs, t)
	}
	switch len(xs) {
	case 0:
		return tTrue
	case 1:
		return xs[0]
	}
	return app(sBool, "and", xs...)
}

func or(ts ...Term) Term {
	var xs []Term
	for _, t := range ts {
		if t.S == "false" {
			continue
		}
		if t.S == "true" {
			return tTrue
		}
		xs = append(xs, t)
	}
	switch len(xs) {
	case 0:
		return tFalse
	case 1:
		return xs[0]
	}
	return app(sBool, "or", xs...)
}

func not(t Term) Term {
	switch t.S {
	case "true":
		return tFalse
	case "false":
		return tTrue
	}
	if strings.HasPrefix(t.S, "(not ") {
		return Term{t.S[5 : len(t.S)-1], sBool}
	}
	return app(sBool, "not", t)
}

func implies(a, b Term) Term {
	if a.S == "true" {
		return b
	}
	if a.S == "false" || b.S == "true" {
		return tTrue
	}
	return app(sBool, "=>", a, b)
}

func eq(a, b Term) Term {
	if a.S == b.S {
		return tTrue
	}
	return app(sBool, "=", a, b)
}

func ite(c, a, b Term) Term {
	if c.S == "true" || a.S == b.S {
		return a
	}
	if c.S == "false" {
		return b
	}
	return app(a.Sort, "ite", c, a, b)
}

func sel(arr, idx Term) Term {
	_, e := arrParts(arr.Sort)
	return app(e, "select", arr, idx)
}

func store(arr, idx, v Term) Term { return app(arr.Sort, "store", arr, idx, v) }

func add(a, b Term) Term { return app(sInt, "+", a, b) }
func sub(a, b Term) Term { return app(sInt, "-", a, b) }
func mul(a, b Term) Term { return app(sInt, "*", a, b) }
func le(a, b Term) Term  { return app(sBool, "<=", a, b) }
func lt(a, b Term) Term  { return app(sBool, "<", a, b) }
func ge(a, b Term) Term  { return app(sBool, ">=", a, b) }
func gt(a, b Term) Term  { return app(sBool, ">", a, b) }

// sanitize makes s usable inside an SMT-LIB simple symbol.
func sanitize(s string) string {
	var b strings.Builder
	for _, c := range s {
		switch {
		case c >= 'a' && c <= 'z', c >= 'A' && c <= 'Z', c >= '0' && c <= '9':
			b.WriteRune(c)
		case strings.ContainsRune("~!@$%^&*_-+=<>.?/", c):
			b.WriteRune(c)
		default:
			b.WriteByte('_')
		}
	}
	return b.String()
}

// ---------------------------------------------------------------------------
// Script: declarations + a log of guarded assumptions; obligations refer to a
// prefix of the log.

type Script struct {
	declOrder []string
	decls     map[string]string // name -> full declaration command
	axioms    []string          // closed axioms (quantified), asserted in every query
	blobAxioms []string         // asserted only in queries that mention blob_ functions
	log       []string          // assumption formulas in order of creation
	fresh     map[string]int
}

func newScript() *Script {
	s := &Script{decls: map[string]string{}, fresh: map[string]int{}}
	s.declRaw("Ref", "(declare-sort Ref 0)")
	s.declRaw("Str", "(declare-sort Str 0)")
	s.declRaw("Blob", "(declare-sort Blob 0)")
	s.declRaw("null", "(declare-const null Ref)")
	// byte arrays as values
	s.declRaw("blob_at", "(declare-fun blob_at (Blob Int) Int)")
	s.declRaw("blob_set", "(declare-fun blob_set (Blob Int Int) Blob)")
	s.declRaw("blob_arr", "(declare-fun blob_arr (Blob) (Array Int Int))")
	s.declRaw("blob_of", "(declare-fun blob_of ((Array Int Int)) Blob)")
	s.declRaw("blob_zero", "(declare-const blob_zero Blob)")
	s.blobAxioms = append(s.blobAxioms,
		"(forall ((i Int)) (! (= (blob_at blob_zero i) 0) :pattern ((blob_at blob_zero i))))",
		"(forall ((b Blob) (i Int) (v Int) (j Int)) (! (= (blob_at (blob_set b i v) j) (ite (= i j) v (blob_at b j))) :pattern ((blob_at (blob_set b i v) j))))",
		"(forall ((b Blob) (i Int)) (! (= (select (blob_arr b) i) (blob_at b i)) :pattern ((select (blob_arr b) i))))",
		"(forall ((a (Array Int Int)) (i Int)) (! (= (blob_at (blob_of a) i) (select a i)) :pattern ((blob_at (blob_of a) i))))")
	return s
}

func (s *Script) declRaw(name, cmd string) {
	if _, ok := s.decls[name]; ok {
		return
	}
	s.decls[name] = cmd
	s.declOrder = append(s.declOrder, name)
}

func (s *Script) declConst(name, sort string) Term {
	s.declRaw(name, fmt.Sprintf("(declare-const %s %s)", name, sort))
	return Term{name, sort}
}

func (s *Script) declFun(name string, args []string, ret string) {
	s.declRaw(name, fmt.Sprintf("(declare-fun %s (%s) %s)", name, strings.Join(args, " "), ret))
}

func (s *Script) freshName(base string) string {
	base = sanitize(base)
	s.fresh[base]++
	return fmt.Sprintf("%s!%d", base, s.fresh[base])
}

func (s *Script) freshConst(base, sort string) Term {
	return s.declConst(s.freshName(base), sort)
}

func (s *Script) axiom(key, formula string) {
	k := "axiom:" + key
	if _, ok := s.decls[k]; ok {
		return
	}
	s.decls[k] = ""
	s.axioms = append(s.axioms, formula)
}

func (s *Script) assume(t Term) {
	if t.S == "true" {
		return
	}
	s.log = append(s.log, t.S)
}

// mark returns the current length of the assumption log.
func (s *Script) mark() int { return len(s.log) }

// query renders the complete SMT-LIB text that is unsatisfiable iff goal
// follows from the first `upto` assumptions.
func (s *Script) query(upto int, goal Term, wantModel bool) string {
	var b bytes.Buffer
	for _, n := range s.declOrder {
		if c := s.decls[n]; c != "" {
			b.WriteString(c)
			b.WriteByte('\n')
		}
	}
	for _, a := range s.axioms {
		b.WriteString("(assert " + a + ")\n")
	}
	usesBlob := strings.Contains(goal.S, "blob_")
	for i := 0; i < upto && i < len(s.log); i++ {
		b.WriteString("(assert " + s.log[i] + ")\n")
		if !usesBlob && strings.Contains(s.log[i], "blob_") {
			usesBlob = true
		}
	}
	if usesBlob {
		for _, a := range s.blobAxioms {
			b.WriteString("(assert " + a + ")\n")
		}
	}
	b.WriteString("(assert (not " + goal.S + "))\n")
	b.WriteString("(check-sat)\n")
	if wantModel {
		b.WriteString("(get-model)\n")
	}
	return b.String()
}

// ---------------------------------------------------------------------------
// Solver portfolio.

type SolverResult struct {
	Status string // "unsat", "sat", "unknown", "timeout", "error"
	Solver string
	Secs   float64
	Output string // solver output (model for sat, messages otherwise)
}

type solverSpec struct {
	name string
	argv func(file string, timeoutSec int) []string
	pre  string
}

var solvers = []solverSpec{
	{name: "z3-new", argv: func(f string, t int) []string {
		return []string{"z3-new", fmt.Sprintf("-T:%d", t), f}
	}},
	{name: "z3", argv: func(f string, t int) []string {
		return []string{"z3", fmt.Sprintf("-T:%d", t), f}
	}},
	{name: "cvc5", argv: func(f string, t int) []string {
		return []string{"cvc5", "--produce-models", fmt.Sprintf("--tlimit=%d", t*1000), f}
	}, pre: "(set-logic ALL)\n"},
}

var solverSem = make(chan struct{}, 14)

func runOne(ctx context.Context, sp solverSpec, dir, base, text string, timeoutSec int) SolverResult {
	file := filepath.Join(dir, base+"."+sp.name+".smt2")
	if err := os.WriteFile(file, []byte(sp.pre+text), 0o644); err != nil {
		return SolverResult{Status: "error", Solver: sp.name, Output: err.Error()}
	}
	if os.Getenv("GOVC_KEEPQ") == "" {
		defer os.Remove(file)
	}
	argv := sp.argv(file, timeoutSec)
	solverSem <- struct{}{}
	defer func() { <-solverSem }()
	if ctx.Err() != nil {
		return SolverResult{Status: "unknown", Solver: sp.name, Output: "cancelled"}
	}
	start := time.Now()
	cctx, cancel := context.WithTimeout(ctx, time.Duration(timeoutSec+2)*time.Second)
	defer cancel()
	cmd := exec.CommandContext(cctx, argv[0], argv[1:]...)
	var out bytes.Buffer
	cmd.Stdout = &out
	cmd.Stderr = &out
	_ = cmd.Run()
	secs := time.Since(start).Seconds()
	o := out.String()
	first := strings.TrimSpace(strings.SplitN(o, "\n", 2)[0])
	st := "unknown"
	switch {
	case first == "unsat":
		st = "unsat"
	case first == "sat":
		st = "sat"
	case first == "timeout" || cctx.Err() != nil:
		st = "timeout"
	case strings.HasPrefix(first, "(error") || strings.Contains(first, "rror"):
		st = "error"
	}
	return SolverResult{Status: st, Solver: sp.name, Secs: secs, Output: o}
}

// solve races the portfolio. A fast first pass with z3-new alone handles the
// bulk of the (easy) obligations without tripling the process count.
func solve(dir, base, text string, timeoutSec int) (SolverResult, []SolverResult) {
	var all []SolverResult
	quick := 2
	if timeoutSec < quick {
		quick = timeoutSec
	}
	// first pass: the query with the backward trigger of the allocation-monotonicity
	// axioms removed (the formulas are the same, so both answers are valid)
	stripped := stripBackwardAllocTriggers(text)
	r := runOne(context.Background(), solvers[0], dir, base, stripped, quick)
	all = append(all, r)
	if r.Status == "unsat" || r.Status == "sat" {
		return r, all
	}
	// Second pass: equivalent or weaker-assumption variants of the same query, run
	// concurrently. (a) the backward trigger of the allocation-monotonicity axioms
	// removed (same formulas, fewer instantiations); (b) a SUBSET of the
	// assumptions (those that mention no heap component unrelated to the goal).
	// Proving from fewer assumptions or with fewer triggers is still a proof, so
	// only an "unsat" answer is used; anything else falls through to the full race.
	{
		type variant struct {
			tag, text string
			opts      []string
		}
		var vs []variant
		if stripped != text {
			vs = append(vs, variant{"alltriggers", text, nil})
		}
		for rounds := 0; rounds <= 1; rounds++ {
			if pt, ok := pruneQuery(stripped, rounds); ok {
				vs = append(vs, variant{fmt.Sprintf("subset%d", rounds), pt, nil})
			}
		}
		if pt, ok := pruneQueryQ(stripped, 2, true); ok {
			vs = append(vs, variant{"subsetq", pt, nil})
			if lt, ok := latestQuantOnly(pt); ok {
				vs = append(vs, variant{"subsetql", lt, nil})
			}
		}
		// goal-directed instantiation (inst.go) of the full query and of the
		// strictest subset
		if it, ok := instQuery(stripped, 400); ok {
			vs = append(vs, variant{"inst", it, nil})
		}
		if pt, ok := pruneQueryQ(stripped, 2, true); ok {
			if it, ok := instQuery(pt, 400); ok {
				vs = append(vs, variant{"instq", it, nil})
			}
		}
		// the same subsets under different solver configurations: quantified
		// goals over long store chains are sensitive to the search heuristics
		// (the same query is decided in 1 s or not in 60 s depending on the
		// random seed), so diversity buys stability
		for _, v := range append([]variant{}, vs...) {
			if v.tag == "subset0" || v.tag == "subsetq" {
				for _, o := range [][]string{{"smt.arith.solver=2"}, {"smt.array.extensional=false"}, {"smt.relevancy=0"}} {
					vs = append(vs, variant{v.tag + ":" + o[0], v.text, o})
				}
			}
		}
		if len(vs) > 0 {
			vctx, vcancel := context.WithCancel(context.Background())
			vch := make(chan SolverResult, len(vs))
			for i, v := range vs {
				go func(i int, v variant) {
					sp := solvers[0]
					if len(v.opts) > 0 {
						opts := v.opts
						sp = solverSpec{name: "z3-new", argv: func(f string, t int) []string {
							return append(append([]string{"z3-new", fmt.Sprintf("-T:%d", t)}, opts...), f)
						}}
					}
					pr := runOne(vctx, sp, dir, fmt.Sprintf("%s_v%d", base, i), v.text, 10)
					pr.Solver += "/" + v.tag
					vch <- pr
				}(i, v)
			}
			var won *SolverResult
			for range vs {
				pr := <-vch
				if pr.Status == "unsat" && won == nil {
					w := pr
					won = &w
					vcancel()
				}
			}
			vcancel()
			if won != nil {
				all = append(all, *won)
				return *won, all
			}
		}
	}
	ctx, cancel := context.WithCancel(context.Background())
	defer cancel()
	ch := make(chan SolverResult, len(solvers))
	var wg sync.WaitGroup
	for _, sp := range solvers {
		wg.Add(1)
		go func(sp solverSpec) {
			defer wg.Done()
			ch <- runOne(ctx, sp, dir, base, text, timeoutSec)
		}(sp)
	}
	go func() { wg.Wait(); close(ch) }()
	best := r
	for x := range ch {
		all = append(all, x)
		if x.Status == "unsat" || x.Status == "sat" {
			best = x
			cancel()
			break
		}
		if best.Status == "error" && x.Status != "error" {
			best = x
		}
	}
	return best, all
}

// summarizeModel keeps the part of a model that mentions named program
// values (drops array internals beyond a size limit).
func summarizeModel(out string, max int) string {
	lines := strings.Split(out, "\n")
	if len(lines) > max {
		lines = append(lines[:max], "... (truncated)")
	}
	return strings.Join(lines, "\n")
}

func sortedKeys[V any](m map[string]V) []string {
	ks := make([]string, 0, len(m))
	for k := range m {
		ks = append(ks, k)
	}
	sort.Strings(ks)
	return ks
}

// queryQF is query() without quantified axioms and assumptions: a satisfiable
// answer is a candidate counterexample (to be confirmed by replay).
func (s *Script) queryQF(upto int, goal Term) string {
	var b bytes.Buffer
	for _, n := range s.declOrder {
		if c := s.decls[n]; c != "" {
			b.WriteString(c)
			b.WriteByte('\n')
		}
	}
	for i := 0; i < upto && i < len(s.log); i++ {
		if strings.Contains(s.log[i], "(forall ") || strings.Contains(s.log[i], "(exists ") {
			continue
		}
		b.WriteString("(assert " + s.log[i] + ")\n")
	}
	if !strings.Contains(goal.S, "(forall ") && !strings.Contains(goal.S, "(exists ") {
		b.WriteString("(assert (not " + goal.S + "))\n")
	}
	b.WriteString("(check-sat)\n(get-model)\n")
	return b.String()
}

var compVerRe = regexp.MustCompile(`([FE]\$[^\s()!@]+)[!@]\d+`)

// splitTopAnd splits "(and a b c)" into its top-level arguments.
func splitTopAnd(body string) []string {
	if !strings.HasPrefix(body, "(and ") || !strings.HasSuffix(body, ")") {
		return []string{body}
	}
	var args []string
	d, start := 0, -1
	in := body[5 : len(body)-1]
	for i := 0; i < len(in); i++ {
		switch in[i] {
		case '(':
			if d == 0 && start < 0 {
				start = i
			}
			d++
		case ')':
			d--
		case '|':
			// quoted symbol: skip to the closing bar
			if start < 0 {
				start = i
			}
			for i++; i < len(in) && in[i] != '|'; i++ {
			}
		case ' ':
			if d == 0 && start >= 0 {
				args = append(args, in[start:i])
				start = -1
			}
		default:
			if start < 0 {
				start = i
			}
		}
	}
	if d != 0 {
		return []string{body}
	}
	if start >= 0 {
		args = append(args, in[start:])
	}
	return args
}

// pruneQuery returns the query with top-level conjunctions split and every
// assumption dropped that mentions a heap component (F$…/E$…) unrelated to
// the goal (the last assertion). rounds widens "related" through small
// quantifier-free assumptions. ok is false when nothing could be dropped.
func pruneQuery(text string, rounds int) (string, bool) { return pruneQueryQ(text, rounds, false) }

// pruneQueryQ: with strictQuant, a QUANTIFIED assumption is kept only if every
// heap component it mentions occurs in the goal itself (the widening through
// quantifier-free assumptions applies to quantifier-free assumptions only).
func pruneQueryQ(text string, rounds int, strictQuant bool) (string, bool) {
	lines := strings.Split(text, "\n")
	goalIdx := -1
	for i, l := range lines {
		if strings.HasPrefix(l, "(assert ") {
			goalIdx = i
		}
	}
	if goalIdx < 0 {
		return "", false
	}
	comps := func(l string) map[string]bool {
		m := map[string]bool{}
		for _, x := range compVerRe.FindAllStringSubmatch(l, -1) {
			m[x[1]] = true
		}
		return m
	}
	var out []string
	var asserts []int // indices into out of assumption lines
	for i, l := range lines {
		if i != goalIdx && strings.HasPrefix(l, "(assert (and ") && strings.HasSuffix(l, ")") {
			var flat func(q string, depth int)
			flat = func(q string, depth int) {
				parts := splitTopAnd(q)
				maxDepth := 6
				if !strictQuant {
					maxDepth = 1 // subset0/subset1 keep the two-level split they were tuned with
				}
				if len(parts) == 1 || depth > maxDepth {
					asserts = append(asserts, len(out))
					out = append(out, "(assert "+q+")")
					return
				}
				for _, p := range parts {
					flat(p, depth+1)
				}
			}
			flat(l[len("(assert "):len(l)-1], 0)
			continue
		}
		if i != goalIdx && strings.HasPrefix(l, "(assert ") {
			asserts = append(asserts, len(out))
		}
		out = append(out, l)
	}
	rel := comps(lines[goalIdx])
	rel0 := comps(lines[goalIdx])
	for r := 0; r < rounds; r++ {
		for _, ai := range asserts {
			l := out[ai]
			if strings.Contains(l, "(forall ") {
				continue
			}
			cs := comps(l)
			if len(cs) > 4 {
				continue
			}
			hit := false
			for c := range cs {
				if rel[c] {
					hit = true
				}
			}
			if hit {
				for c := range cs {
					rel[c] = true
				}
			}
		}
	}
	dropped := 0
	drop := map[int]bool{}
	for _, ai := range asserts {
		use := rel
		if strictQuant && strings.Contains(out[ai], "(forall ") {
			use = rel0
		}
		for c := range comps(out[ai]) {
			if !use[c] {
				drop[ai] = true
				dropped++
				break
			}
		}
	}
	if dropped == 0 {
		return "", false
	}
	var b strings.Builder
	for i, l := range out {
		if drop[i] {
			continue
		}
		b.WriteString(l)
		b.WriteByte('\n')
	}
	return b.String(), true
}

var verSuffixRe = regexp.MustCompile(`[!@]q?\d+`)

// latestQuantOnly: of the quantified assumptions that differ only in the
// versions of the heap components and constants they mention (the same clause
// re-established after successive calls), only the last one is kept.
func latestQuantOnly(text string) (string, bool) {
	lines := strings.Split(text, "\n")
	goalIdx := -1
	for i, l := range lines {
		if strings.HasPrefix(l, "(assert ") {
			goalIdx = i
		}
	}
	shape := func(l string) string {
		// the first quantified sub-formula, versions erased
		k := strings.Index(l, "(forall ")
		d := 0
		for j := k; j < len(l); j++ {
			switch l[j] {
			case '(':
				d++
			case ')':
				d--
				if d == 0 {
					return verSuffixRe.ReplaceAllString(l[k:j+1], "")
				}
			}
		}
		return verSuffixRe.ReplaceAllString(l[k:], "")
	}
	last := map[string]int{}
	for i, l := range lines {
		if i != goalIdx && strings.HasPrefix(l, "(assert ") && strings.Contains(l, "(forall ") && !strings.Contains(l, ":pattern") {
			last[shape(l)] = i
		}
	}
	dropped := false
	var b strings.Builder
	for i, l := range lines {
		if i != goalIdx && strings.HasPrefix(l, "(assert ") && strings.Contains(l, "(forall ") && !strings.Contains(l, ":pattern") {
			if last[shape(l)] != i {
				dropped = true
				continue
			}
		}
		b.WriteString(l)
		b.WriteByte('\n')
	}
	return b.String(), dropped
}

var backwardAllocRe = regexp.MustCompile(`(\(assert \(forall \(\(r Ref\)\) \(! \(=> \(select (alloc[!@]\d+) r\) \(select (alloc[!@]\d+) r\)\) :pattern \(\(select (alloc[!@]\d+) r\)\)) :pattern \(\(select (alloc[!@]\d+) r\)\)\)\)\)`)

// stripBackwardAllocTriggers removes the second (backward) trigger of every
// allocation-monotonicity axiom; the formulas stay the same.
func stripBackwardAllocTriggers(text string) string {
	return backwardAllocRe.ReplaceAllString(text, "$1)))")
}

var smtSymRe = regexp.MustCompile(`[A-Za-z_$\^][^\s()]*`)

var smtReserved = map[string]bool{"assert": true, "and": true, "or": true, "not": true, "ite": true, "select": true, "store": true, "forall": true, "exists": true,
	"true": true, "false": true, "Int": true, "Bool": true, "Ref": true, "Array": true, "null": true, "div": true, "mod": true, "distinct": true, "let": true}

// sineQuery: SInE-style relevance filter (Hoder & Voronkov). A symbol s
// triggers an assumption A if s occurs in A and is (nearly) the rarest symbol
// of A; starting from the goal's symbols, assumptions triggered by a relevant
// symbol become relevant (and contribute their symbols) for `depth` rounds.
// Everything else is dropped. Proving from a subset of the assumptions is
// still a proof; only "unsat" answers are used.
func sineQuery(text string, depth int, tol float64) (string, bool) {
	lines := strings.Split(text, "\n")
	goalIdx := -1
	for i, l := range lines {
		if strings.HasPrefix(l, "(assert ") {
			goalIdx = i
		}
	}
	if goalIdx < 0 {
		return "", false
	}
	var out []string
	var asserts []int
	for i, l := range lines {
		if i != goalIdx && strings.HasPrefix(l, "(assert (and ") && strings.HasSuffix(l, ")") {
			var flat func(q string, d int)
			flat = func(q string, d int) {
				parts := splitTopAnd(q)
				if len(parts) == 1 || d > 6 {
					asserts = append(asserts, len(out))
					out = append(out, "(assert "+q+")")
					return
				}
				for _, p := range parts {
					flat(p, d+1)
				}
			}
			flat(l[len("(assert "):len(l)-1], 0)
			continue
		}
		if i != goalIdx && strings.HasPrefix(l, "(assert ") {
			asserts = append(asserts, len(out))
		}
		out = append(out, l)
	}
	symsOf := func(l string) map[string]bool {
		m := map[string]bool{}
		for _, s := range smtSymRe.FindAllString(l, -1) {
			if smtReserved[s] || strings.HasPrefix(s, ":") {
				continue
			}
			if strings.Contains(s, "!q") {
				continue // bound variable
			}
			m[s] = true
		}
		return m
	}
	syms := make([]map[string]bool, len(out))
	occ := map[string]int{}
	for _, ai := range asserts {
		syms[ai] = symsOf(out[ai])
		for s := range syms[ai] {
			occ[s]++
		}
	}
	// triggers: the rarest symbols of each assumption
	trig := make([]map[string]bool, len(out))
	for _, ai := range asserts {
		min := 1 << 30
		for s := range syms[ai] {
			if occ[s] < min {
				min = occ[s]
			}
		}
		trig[ai] = map[string]bool{}
		for s := range syms[ai] {
			if float64(occ[s]) <= tol*float64(min) {
				trig[ai][s] = true
			}
		}
	}
	rel := symsOf(lines[goalIdx])
	keep := map[int]bool{}
	for d := 0; d < depth; d++ {
		var added []int
		for _, ai := range asserts {
			if keep[ai] {
				continue
			}
			for s := range trig[ai] {
				if rel[s] {
					added = append(added, ai)
					break
				}
			}
		}
		if len(added) == 0 {
			break
		}
		for _, ai := range added {
			keep[ai] = true
			for s := range syms[ai] {
				rel[s] = true
			}
		}
	}
	dropped := 0
	var b strings.Builder
	isAssert := map[int]bool{}
	for _, ai := range asserts {
		isAssert[ai] = true
	}
	for i, l := range out {
		if isAssert[i] && !keep[i] {
			dropped++
			continue
		}
		b.WriteString(l)
		b.WriteByte('\n')
	}
	return b.String(), dropped > 0
}
