package main

// container/heap over a user-defined heap.Interface whose methods are under
// contract.
//
// The library functions are modelled by what they are documented to do with
// the five interface methods; everything the model says about the user's type
// comes from that type's own (verified) contracts:
//
//   heap.Push(h, x)   = h.Push(x); swaps*(Len)
//   heap.Remove(h, i) = n := h.Len()-1; [i in 0..n]; if n != i { h.Swap(i, n); swaps*(n) }; return h.Pop()
//   heap.Pop(h)       = n := h.Len()-1; [n >= 0]; h.Swap(0, n); swaps*(n); return h.Pop()
//   heap.Fix(h, i)    = [i in 0..Len-1]; swaps*(Len)
//   heap.Init(h)      = swaps*(Len)
//
// swaps*(b) is the unknown, finite sequence of h.Less(i, j) / h.Swap(i, j)
// calls with 0 <= i, j < b that up/down make. It is abstracted by the `stable`
// clauses of the type's Swap contract: two-state clauses over the receiver
// only which every single Swap establishes (checked on Swap's body) and which
// are closed under composition (checked: FV.stableClosure). The state
// requirements of Swap and Less (their `requires` clauses that do not mention
// the indices) must hold before the sequence (obligation at the call site) and
// are preserved by it (checked by stableClosure), the index requirements must
// follow from them and 0 <= i, j < len (checked by stableClosure).
//
// Trusted here (listed in the evidence): container/heap calls nothing but
// these methods, with indices below the stated bound, and terminates; slots
// at or above the bound are not passed to Swap, hence (Swap's own verified
// postcondition "no other slot changes") keep their element.

import (
	"fmt"
	"go/ast"
	"go/types"
)

const heapModelDoc = "Push/Remove/Pop/Fix/Init expressed through the heap type's own Len/Less/Swap/Push/Pop contracts; the unknown sequence of Less/Swap calls is abstracted by the `stable` clauses of the Swap contract (closure checked); trusted: the library calls only these methods, with indices below the documented bound, and terminates"

func init() {
	for _, n := range []string{"Push", "Remove", "Pop", "Fix", "Init"} {
		name := n
		full := "container/heap." + name
		libModelDocs[full] = heapModelDoc
		libModels[full] = func(fv *FV, e *Env, x *ast.CallExpr, recv *Value, args []Value) (Value, bool) {
			return fv.heapModel(e, x, name, args)
		}
	}
}

// methodUnit finds the contracted unit of method name of type t (t is the
// static type of the heap argument, usually a pointer to a named slice).
func (fv *FV) methodUnit(t types.Type, name string) *FuncUnit {
	obj, _, _ := types.LookupFieldOrMethod(t, true, nil, name)
	fn, ok := obj.(*types.Func)
	if !ok {
		return nil
	}
	u := fv.eng.unitOf(fn)
	if u == nil || u.C == nil {
		return nil
	}
	return u
}

// recvFor adapts the heap argument (a pointer) to the receiver kind of u.
func (fv *FV) recvFor(e *Env, u *FuncUnit, h Value, ht types.Type) Value {
	sig := u.Fn.Type().(*types.Signature)
	if _, ptrRecv := sig.Recv().Type().Underlying().(*types.Pointer); ptrRecv {
		return h
	}
	p, ok := ht.Underlying().(*types.Pointer)
	if !ok {
		return h // value passed as heap.Interface: value receiver methods only
	}
	return fv.derefValue(e, h, p.Elem())
}

// derefValue loads *p for a pointer p to a non-object value of type t.
func (fv *FV) derefValue(e *Env, p Value, t types.Type) Value {
	if len(p.T.S) > 4 && p.T.S[:4] == "(pa$" {
		body := p.T.S[len("(pa$") : len(p.T.S)-1]
		for i := 0; i < len(body); i++ {
			if body[i] == ' ' {
				return fv.load(e, LV{kind: lvCell, comp: body[:i], idx: []Term{{body[i+1:], sRef}}, typ: t})
			}
		}
	}
	if isObjectType(t) {
		return fv.load(e, LV{kind: lvObject, addr: p.T, typ: t})
	}
	return fv.load(e, LV{kind: lvCell, comp: boxComp(t), idx: []Term{p.T}, typ: t})
}

// mentionsParams reports whether the clause names a parameter of fn other
// than the receiver.
func clauseMentionsParams(cl *Clause, fn *types.Func) bool {
	if cl.Expr == nil || cl.Info == nil {
		return true
	}
	sig := fn.Type().(*types.Signature)
	ps := map[types.Object]bool{}
	for i := 0; i < sig.Params().Len(); i++ {
		ps[sig.Params().At(i)] = true
	}
	found := false
	ast.Inspect(cl.Expr, func(n ast.Node) bool {
		if id, ok := n.(*ast.Ident); ok {
			if o := cl.Info.Uses[id]; o != nil && ps[o] {
				found = true
			}
		}
		return true
	})
	return found
}

func (fv *FV) heapModel(e *Env, x *ast.CallExpr, name string, args []Value) (Value, bool) {
	if len(x.Args) < 1 || len(args) < 1 || fv.spec != nil {
		return Value{}, false
	}
	ht := fv.typeOf(x.Args[0])
	if ht == nil || isInterfaceType(ht) {
		return Value{}, false
	}
	uLen, uLess, uSwap := fv.methodUnit(ht, "Len"), fv.methodUnit(ht, "Less"), fv.methodUnit(ht, "Swap")
	uPush, uPop := fv.methodUnit(ht, "Push"), fv.methodUnit(ht, "Pop")
	if uLen == nil || uLess == nil || uSwap == nil || uPush == nil || uPop == nil || len(uSwap.C.Stable) == 0 {
		return Value{}, false // not under contract: the call stays opaque
	}
	h := args[0]
	intT := types.Typ[types.Int]
	lenOf := func() Term {
		rv := fv.recvFor(e, uLen, h, ht)
		return fv.applyContract(e, x, uLen, &rv, nil, intT).T
	}
	anyT := types.NewInterfaceType(nil, nil)
	switch name {
	case "Push":
		if len(args) != 2 {
			return Value{}, false
		}
		rv := fv.recvFor(e, uPush, h, ht)
		a := args[1]
		if at := fv.typeOf(x.Args[1]); at != nil && !isInterfaceType(at) {
			a = fv.convert(e, x, a, at, anyT)
		}
		fv.applyContract(e, x, uPush, &rv, []Value{a}, nil)
		fv.heapSwaps(e, x, h, ht, uSwap, uLess, nil)
		return Value{}, true
	case "Fix":
		if len(args) != 2 {
			return Value{}, false
		}
		n := lenOf()
		fv.obligeNamed(e, "heapidx", "heapidx:Fix", x, "heap.Fix is called with an index of the heap (0 <= i < h.Len())", and(le(intLit(0), args[1].T), lt(args[1].T, n)))
		fv.assume(e, and(le(intLit(0), args[1].T), lt(args[1].T, n)))
		fv.heapSwaps(e, x, h, ht, uSwap, uLess, nil)
		return Value{}, true
	case "Init":
		fv.heapSwaps(e, x, h, ht, uSwap, uLess, nil)
		return Value{}, true
	case "Remove", "Pop":
		n := sub(lenOf(), intLit(1))
		i := intLit(0)
		if name == "Remove" {
			if len(args) != 2 {
				return Value{}, false
			}
			i = args[1].T
		}
		inRange := and(le(intLit(0), i), le(i, n))
		fv.obligeNamed(e, "heapidx", "heapidx:"+name, x, "heap."+name+" is called with an index of the heap (0 <= i < h.Len()); otherwise Swap/Pop panic or the wrong element is removed", inRange)
		fv.assume(e, inRange)
		doSwap := func(b *Env) {
			rv := fv.recvFor(b, uSwap, h, ht)
			fv.applyContract(b, x, uSwap, &rv, []Value{{K: kScalar, T: i, Type: intT}, {K: kScalar, T: n, Type: intT}}, nil)
			fv.heapSwaps(b, x, h, ht, uSwap, uLess, &n)
		}
		if name == "Pop" {
			doSwap(e) // heap.Pop swaps unconditionally
		} else {
			yes := fv.withCond(e, not(eq(n, i)))
			no := fv.withCond(e, eq(n, i))
			doSwap(yes)
			*e = *fv.mergeEnvs([]*Env{yes, no})
		}
		rv := fv.recvFor(e, uPop, h, ht)
		res := fv.applyContract(e, x, uPop, &rv, nil, anyT)
		return res, true
	}
	return Value{}, false
}

// heapSwaps abstracts an unknown sequence of Less/Swap calls with indices
// below bound (nil: below Len) by the stable clauses of Swap's contract.
func (fv *FV) heapSwaps(e *Env, x *ast.CallExpr, h Value, ht types.Type, uSwap, uLess *FuncUnit, bound *Term) {
	if e.dead {
		return
	}
	fv.trustedUsed["container/heap: the sequence of Less/Swap calls made by up/down is abstracted by the stable clauses of "+uSwap.Name()+" (closure under composition is checked with that function)"] = true
	fv.calleesUsed[uSwap.Name()] = true
	fv.calleesUsed[uLess.Name()] = true
	uSwap.C.Used, uLess.C.Used = true, true
	intT := types.Typ[types.Int]
	bindFor := func(env *Env, u *FuncUnit) map[types.Object]Value {
		rv := fv.recvFor(env, u, h, ht)
		sig := u.Fn.Type().(*types.Signature)
		var as []Value
		for k := 0; k < sig.Params().Len(); k++ {
			as = append(as, Value{K: kScalar, T: fv.s.freshConst("hidx", sInt), Type: intT})
		}
		return fv.bindParams(u, &rv, as)
	}
	pre := e.clone()
	// state requirements of Swap and Less hold before the sequence
	for _, u := range []*FuncUnit{uSwap, uLess} {
		bind := bindFor(pre, u)
		for _, cl := range u.C.Requires {
			if clauseMentionsParams(cl, u.Fn) {
				continue
			}
			t := fv.specTermO(e, cl, &specCtx{old: pre, bind: bind})
			fv.obligeNamed(e, "pre", fmt.Sprintf("pre:%s.%s#%d", u.Name(), cl.Label, fv.siteOrd(u.Name()+cl.Label)), x,
				fmt.Sprintf("state requirement of %s before the heap operation: %s", u.Name(), cl.Text), t)
			fv.assume(e, t)
		}
	}
	// the writes of the sequence: Swap's footprint
	bindS := bindFor(pre, uSwap)
	if !uSwap.C.HasMod {
		fv.havocAll(e)
	} else {
		for _, cl := range uSwap.C.Modifies {
			fv.havocLocation(e, pre, cl, bindS)
		}
	}
	for _, cl := range uSwap.C.Stable {
		fv.assume(e, fv.specTermA(e, cl, &specCtx{old: pre, bind: bindS, preAlloc: pre.alloc}))
	}
	for _, u := range []*FuncUnit{uSwap, uLess} {
		bind := bindFor(pre, u)
		for _, cl := range u.C.Requires {
			if clauseMentionsParams(cl, u.Fn) {
				continue
			}
			fv.assume(e, fv.specTermA(e, cl, &specCtx{old: pre, bind: bind}))
		}
	}
	if bound != nil {
		// slots at or above the bound are never handed to Swap
		sv := fv.recvFor(pre, uSwap, h, ht)
		if sv.K == kSlice {
			if sl, ok := sv.Type.Underlying().(*types.Slice); ok {
				_, es := sortOf(sl.Elem())
				oldA := fv.sliceInner(pre, sv, es)
				newA := fv.sliceInner(e, sv, es)
				k := Term{"k!heap", sInt}
				body := implies(and(le(*bound, k), lt(k, sv.Len)), eq(sel(newA, add(sv.Off, k)), sel(oldA, add(sv.Off, k))))
				fv.assume(e, Term{fmt.Sprintf("(forall ((k!heap Int)) %s)", body.S), sBool})
			}
		}
	}
}

// stableClosure: obligations that make the `stable` clauses of this function
// (a heap type's Swap) usable as the summary of any number of calls:
//   - every index requirement of Swap and Less follows from the state
//     requirements and 0 <= i, j < len;
//   - the state requirements hold again after a step that satisfies the
//     stable clauses;
//   - the stable clauses are transitive.
func (fv *FV) stableClosure() {
	u := fv.u
	if u.C == nil || len(u.C.Stable) == 0 || u.C.Trusted {
		return
	}
	sig := u.Fn.Type().(*types.Signature)
	at := &ast.Ident{NamePos: u.Decl.Pos()}
	for _, cl := range u.C.Stable {
		if clauseMentionsParams(cl, u.Fn) {
			fv.specErr(fmt.Sprintf("%s:%d: a stable clause may name the receiver only: %s", cl.File, cl.Line, cl.Text))
			return
		}
	}
	if sig.Recv() == nil {
		return
	}
	e0 := fv.entry.clone()
	recv := fv.entryVals[sig.Recv()]
	rt := sig.Recv().Type()
	intT := types.Typ[types.Int]
	lenT := Term{}
	if recv.K == kSlice {
		lenT = recv.Len
	}
	freshBind := func(un *FuncUnit) map[types.Object]Value {
		b := map[types.Object]Value{}
		usig := un.Fn.Type().(*types.Signature)
		if usig.Recv() != nil {
			b[usig.Recv()] = recv
		}
		for k := 0; k < usig.Params().Len(); k++ {
			c := fv.s.freshConst("hidx", sInt)
			if lenT.S != "" {
				fv.s.assume(and(le(intLit(0), c), lt(c, lenT)))
			}
			b[usig.Params().At(k)] = Value{K: kScalar, T: c, Type: intT}
		}
		return b
	}
	units := []*FuncUnit{u}
	if less := fv.methodUnit(rt, "Less"); less != nil {
		units = append(units, less)
	}
	// (1) index requirements follow from the state requirements
	for _, un := range units {
		b := freshBind(un)
		for _, cl := range un.C.Requires {
			if !clauseMentionsParams(cl, un.Fn) {
				if un != u {
					// Less's state requirements are assumed to be among Swap's (checked at each heap operation)
					fv.assume(e0, fv.specTermA(e0, cl, &specCtx{old: e0, bind: b}))
				}
				continue
			}
			t := fv.specTermO(e0, cl, &specCtx{old: e0, bind: b})
			fv.obligeNamed(e0, "stable", fmt.Sprintf("stable.req:%s.%s", un.Fn.Name(), cl.Label), at,
				fmt.Sprintf("index requirement of %s follows from the state requirements and 0 <= i, j < len: %s", un.Name(), cl.Text), t)
		}
	}
	step := func(from *Env) *Env {
		to := from.clone()
		if !u.C.HasMod {
			fv.havocAll(to)
		} else {
			for _, cl := range u.C.Modifies {
				fv.havocLocation(to, from, cl, fv.entryVals)
			}
		}
		for _, cl := range u.C.Stable {
			fv.assume(to, fv.specTermA(to, cl, &specCtx{old: from, bind: fv.entryVals, preAlloc: from.alloc}))
		}
		return to
	}
	e1 := step(e0)
	// (2) state requirements are preserved
	for _, un := range units {
		b := freshBind(un)
		for _, cl := range un.C.Requires {
			if clauseMentionsParams(cl, un.Fn) {
				continue
			}
			t := fv.specTermO(e1, cl, &specCtx{old: e1, bind: b})
			fv.obligeNamed(e1, "stable", fmt.Sprintf("stable.inv:%s.%s", un.Fn.Name(), cl.Label), at,
				fmt.Sprintf("state requirement of %s holds again after any step satisfying the stable clauses: %s", un.Name(), cl.Text), t)
			fv.assume(e1, t)
		}
	}
	// (3) transitivity
	e2 := step(e1)
	for _, cl := range u.C.Stable {
		t := fv.specTermO(e2, cl, &specCtx{old: e0, bind: fv.entryVals, preAlloc: e0.alloc})
		fv.obligeNamed(e2, "stable", "stable.trans:"+cl.Label, at,
			fmt.Sprintf("stable clause is closed under composition: %s", cl.Text), t)
	}
}
