package main

// Mapping from Go types to SMT sorts and heap components.

import (
	"fmt"
	"go/types"
	"math/big"
	"strings"
)

const modPrefix = "github.com/oasisprotocol/oasis-core/go/"

func shortQual(p *types.Package) string {
	if p == nil {
		return ""
	}
	return strings.TrimPrefix(p.Path(), modPrefix)
}

func typeStr(t types.Type) string { return types.TypeString(t, shortQual) }

func isBigInt(t types.Type) bool {
	n, ok := types.Unalias(t).(*types.Named)
	return ok && n.Obj().Pkg() != nil && n.Obj().Pkg().Path() == "math/big" && n.Obj().Name() == "Int"
}

func isNamed(t types.Type, pkgSuffix, name string) bool {
	n, ok := types.Unalias(t).(*types.Named)
	return ok && n.Obj().Pkg() != nil && strings.HasSuffix(n.Obj().Pkg().Path(), pkgSuffix) && n.Obj().Name() == name
}

func deref(t types.Type) types.Type {
	if p, ok := t.Underlying().(*types.Pointer); ok {
		return p.Elem()
	}
	return t
}

// isObjectType reports whether values of t are modelled as objects living at a
// Ref (structs and big.Int).
func isObjectType(t types.Type) bool {
	if t == nil {
		return false
	}
	if isBigInt(t) {
		return true
	}
	if _, ok := objArray(t); ok {
		return true
	}
	_, ok := t.Underlying().(*types.Struct)
	return ok
}

// objArray: a fixed-size array (at most 64 elements) whose elements are
// objects. Such an array is itself an object: element i lives at the element
// address ea$T(base, i) of the array's own address.
func objArray(t types.Type) (*types.Array, bool) {
	if t == nil {
		return nil, false
	}
	a, ok := t.Underlying().(*types.Array)
	if !ok || a.Len() > 64 {
		return nil, false
	}
	if isBigInt(a.Elem()) {
		return a, true
	}
	if _, ok := a.Elem().Underlying().(*types.Struct); ok {
		return a, true
	}
	if _, ok := objArray(a.Elem()); ok {
		return a, true
	}
	return nil, false
}

// sortOf returns the value kind and (for scalars) the SMT sort for a Go type.
func sortOf(t types.Type) (vkind, string) {
	if t == nil {
		return kScalar, sRef
	}
	switch u := t.Underlying().(type) {
	case *types.Basic:
		switch {
		case u.Info()&types.IsBoolean != 0:
			return kScalar, sBool
		case u.Info()&types.IsInteger != 0:
			return kScalar, sInt
		case u.Info()&types.IsString != 0:
			return kScalar, sStr
		case u.Info()&types.IsFloat != 0:
			return kScalar, sReal
		}
		return kScalar, sRef
	case *types.Slice:
		return kSlice, sRef
	case *types.Array:
		if b, ok := u.Elem().Underlying().(*types.Basic); ok && b.Kind() == types.Uint8 {
			return kScalar, sBlob // byte arrays (hashes, keys, addresses): identity values with byte access
		}
		k, es := sortOf(u.Elem())
		if k == kScalar && !isObjectType(u.Elem()) {
			return kScalar, arrSort(sInt, es)
		}
		return kScalar, sRef
	case *types.Tuple:
		return kTuple, ""
	}
	return kScalar, sRef
}

// elemSortOf gives the sort used for elements stored in slices/maps/boxes.
func elemSortOf(t types.Type) string {
	k, s := sortOf(t)
	if k == kSlice {
		return sRef // nested slices: only the backing ref is tracked
	}
	return s
}

var two = big.NewInt(2)

func pow2(n uint) *big.Int { return new(big.Int).Exp(two, big.NewInt(int64(n)), nil) }

// intRange returns the inclusive range of a machine integer type.
func intRange(t types.Type) (lo, hi *big.Int, bits uint, signed, ok bool) {
	b, isB := t.Underlying().(*types.Basic)
	if !isB || b.Info()&types.IsInteger == 0 {
		return nil, nil, 0, false, false
	}
	switch b.Kind() {
	case types.Int8:
		bits, signed = 8, true
	case types.Int16:
		bits, signed = 16, true
	case types.Int32:
		bits, signed = 32, true
	case types.Int64, types.Int:
		bits, signed = 64, true
	case types.Uint8:
		bits = 8
	case types.Uint16:
		bits = 16
	case types.Uint32:
		bits = 32
	case types.Uint64, types.Uint, types.Uintptr:
		bits = 64
	default:
		return nil, nil, 0, false, false // untyped
	}
	if signed {
		h := pow2(bits - 1)
		return new(big.Int).Neg(h), new(big.Int).Sub(h, big.NewInt(1)), bits, true, true
	}
	return big.NewInt(0), new(big.Int).Sub(pow2(bits), big.NewInt(1)), bits, false, true
}

func bigLit(n *big.Int) Term { return intLitStr(n.String()) }

// rangeFact is the typing invariant of a machine integer.
func rangeFact(t Term, typ types.Type) Term {
	lo, hi, _, _, ok := intRange(typ)
	if !ok || t.Sort != sInt {
		return tTrue
	}
	return and(le(bigLit(lo), t), le(t, bigLit(hi)))
}

// fieldComp names the heap component of a struct field.
func fieldComp(owner types.Type, f *types.Var) string {
	return "F$" + sanitize(typeStr(owner)) + "." + f.Name()
}

func addrFun(owner types.Type, f *types.Var) string {
	return "fa$" + sanitize(typeStr(owner)) + "." + f.Name()
}

// structOf returns the struct underlying t (after pointer deref), or nil.
func structOf(t types.Type) *types.Struct {
	t = deref(t)
	s, _ := t.Underlying().(*types.Struct)
	return s
}

func zeroTerm(sort string) Term {
	switch sort {
	case sInt:
		return intLit(0)
	case sBool:
		return tFalse
	case sRef:
		return tNull
	case sStr:
		return Term{"str_empty", sStr}
	case sBlob:
		return Term{"blob_zero", sBlob}
	case sReal:
		return Term{"0.0", sReal}
	}
	if strings.HasPrefix(sort, "(Array ") {
		_, e := arrParts(sort)
		return Term{fmt.Sprintf("((as const %s) %s)", sort, zeroTerm(e).S), sort}
	}
	return Term{"null", sRef}
}
