package main

import (
	"encoding/json"
	"flag"
	"fmt"
	"go/ast"
	"go/types"
	"os"
	"path/filepath"
	"sort"
	"strings"
	"sync"
	"time"
)

type KnownFinding struct {
	Property   string `json:"property"`
	Obligation string `json:"obligation"`
	Status     string `json:"status"` // known | fixed
	Commit     string `json:"commit,omitempty"`
	What       string `json:"what"`
}

// loadKnown reads /verif/known_findings.txt. Lines:
//   known: property=<id> obligation=<obligation name> <what fails>
//   fixed: property=<id> <commit> <what failed>          (suppresses nothing)
func loadKnown(path string) ([]KnownFinding, error) {
	data, err := os.ReadFile(path)
	if err != nil {
		if os.IsNotExist(err) {
			return nil, nil
		}
		return nil, err
	}
	var out []KnownFinding
	for _, line := range strings.Split(string(data), "\n") {
		line = strings.TrimSpace(line)
		if line == "" || strings.HasPrefix(line, "#") {
			continue
		}
		var k KnownFinding
		switch {
		case strings.HasPrefix(line, "known:"):
			k.Status = "known"
			rest := strings.Fields(strings.TrimPrefix(line, "known:"))
			var what []string
			for _, f := range rest {
				switch {
				case strings.HasPrefix(f, "property="):
					k.Property = strings.TrimPrefix(f, "property=")
				case strings.HasPrefix(f, "obligation="):
					k.Obligation = strings.TrimPrefix(f, "obligation=")
				default:
					what = append(what, f)
				}
			}
			k.What = strings.Join(what, " ")
			if k.Property == "" || k.Obligation == "" {
				return nil, fmt.Errorf("%s: malformed known finding: %s", path, line)
			}
		case strings.HasPrefix(line, "fixed:"):
			k.Status = "fixed"
			k.What = strings.TrimSpace(strings.TrimPrefix(line, "fixed:"))
		default:
			return nil, fmt.Errorf("%s: malformed line: %s", path, line)
		}
		out = append(out, k)
	}
	return out, nil
}

func main() {
	// the repository needs go >= 1.26.3; use the pre-installed go1.26.8 toolchain
	os.Setenv("PATH", "/opt/veriftools/go1.26.8/bin:"+os.Getenv("PATH"))
	os.Setenv("GOTOOLCHAIN", "local")
	os.Setenv("GOFLAGS", "-mod=mod")
	os.Setenv("GOPROXY", "off")
	if len(os.Args) < 2 {
		fmt.Fprintln(os.Stderr, "usage: govc check|list ...")
		os.Exit(2)
	}
	switch os.Args[1] {
	case "check":
		os.Exit(cmdCheck(os.Args[2:]))
	case "replay":
		os.Exit(cmdReplay(os.Args[2:]))
	case "rewrite":
		fmt.Println(renameBuiltins(rewriteSpec(strings.Join(os.Args[2:], " "))))
	default:
		fmt.Fprintln(os.Stderr, "unknown command")
		os.Exit(2)
	}
}

type propConfig struct {
	Extra map[string]any `json:"extra"`
}

func cmdCheck(args []string) int {
	fs := flag.NewFlagSet("check", flag.ExitOnError)
	prop := fs.String("prop", "", "property id")
	tier := fs.String("tier", "quick", "quick|thorough")
	verifDir := fs.String("verif", "/verif", "verif root")
	funcFilter := fs.String("func", "", "only functions whose name contains this")
	oblFilter := fs.String("obl", "", "only obligations whose name contains this")
	keep := fs.Bool("keep", false, "keep SMT files")
	debug := fs.Bool("debug", false, "debug")
	timeout := fs.Int("timeout", 0, "per-obligation timeout (s)")
	noEvidence := fs.Bool("no-evidence", false, "do not write evidence")
	verbose := fs.Bool("v", false, "verbose")
	noReplay := fs.Bool("no-replay", false, "do not replay counterexamples on the real code")
	fs.Parse(args)
	if *prop == "" {
		fmt.Fprintln(os.Stderr, "-prop required")
		return 2
	}
	start := time.Now()
	eng := newEngine()
	eng.contractsDir = filepath.Join(*verifDir, "contracts")
	eng.keepSMT, eng.debug, eng.oblFilter = *keep, *debug, *oblFilter
	eng.timeout = 10
	eng.replay = !*noReplay
	eng.reachNotes = *verbose || *tier == "thorough"
	if *tier == "thorough" {
		eng.timeout = 60
		eng.crossCheck = true
	}
	if *timeout > 0 {
		eng.timeout = *timeout
	}
	tmp := os.Getenv("GOVC_TMP")
	if tmp == "" {
		tmp = filepath.Join(*verifDir, "out", "work")
	}
	eng.workDir = filepath.Join(tmp, fmt.Sprintf("%s-%d", *prop, os.Getpid()))
	os.MkdirAll(eng.workDir, 0o755)
	if !*keep {
		defer os.RemoveAll(eng.workDir)
	}

	if err := eng.loadNoEffect(filepath.Join(*verifDir, "contracts", "noeffect.txt")); err != nil {
		fmt.Fprintln(os.Stderr, "BROKEN:", err)
		return 2
	}
	if err := eng.scanContracts(); err != nil {
		fmt.Fprintln(os.Stderr, "BROKEN: contract files:", err)
		return 2
	}
	// packages whose contracts serve this property
	var dirs []string
	for rel, ps := range eng.specDirs {
		serves := false
		for _, c := range ps.Contracts {
			if c.servesProp(*prop) {
				serves = true
			}
		}
		for _, l := range ps.Lemmas {
			for _, p := range l.Props {
				if p == *prop {
					serves = true
				}
			}
		}
		if serves {
			dirs = append(dirs, rel)
		}
	}
	sort.Strings(dirs)
	if len(dirs) == 0 {
		fmt.Fprintln(os.Stderr, "BROKEN: no contracts serve property", *prop)
		return 2
	}
	if err := eng.load(dirs); err != nil {
		fmt.Fprintln(os.Stderr, "BROKEN: load:", err)
		return 2
	}
	loadSecs := time.Since(start).Seconds()
	if len(eng.broken) > 0 {
		for _, m := range eng.broken {
			fmt.Println("BROKEN:", m)
		}
		return 2
	}

	// select units
	var units []*FuncUnit
	for _, u := range eng.units {
		if u.C.servesProp(*prop) && !u.C.Trusted && !u.C.Opaque {
			if *funcFilter == "" || strings.Contains(u.Name(), *funcFilter) {
				units = append(units, u)
			}
		}
	}
	sort.Slice(units, func(i, j int) bool { return units[i].Name() < units[j].Name() })
	var lemmas []*FuncUnit
	for _, ps := range eng.specs {
		for _, l := range ps.Lemmas {
			for _, p := range l.Props {
				if p == *prop {
					if di := eng.lemmaPos[l]; di != nil {
						fn := di.pkg.TypesInfo.Defs[di.decl.Name]
						lu := &FuncUnit{Decl: di.decl, Pkg: di.pkg, Spec: ps, C: &Contract{Key: "lemma." + l.Name, Requires: l.Requires, Ensures: l.Ensures, Safety: map[string]bool{}, Loops: map[int]*LoopSpec{}}}
						lu.Fn = fn.(*types.Func)
						lu.lemma = true
						if *funcFilter == "" || strings.Contains(lu.Name(), *funcFilter) {
							lemmas = append(lemmas, lu)
						}
					}
				}
			}
		}
	}
	units = append(units, lemmas...)

	known, err := loadKnown(filepath.Join(*verifDir, "known_findings.txt"))
	if err != nil {
		fmt.Fprintln(os.Stderr, "BROKEN:", err)
		return 2
	}
	// obligations recorded as known findings of this property are expected to fail:
	// only the first solver pass is spent on them (quick tier)
	eng.knownObl = map[string]bool{}
	if *tier != "thorough" {
		for _, k := range known {
			if k.Property == *prop && k.Status == "known" {
				eng.knownObl[k.Obligation] = true
			}
		}
	}

	reports := make([]*FuncReport, len(units))
	var wg sync.WaitGroup
	sem := make(chan struct{}, 6)
	for i, u := range units {
		wg.Add(1)
		go func(i int, u *FuncUnit) {
			defer wg.Done()
			sem <- struct{}{}
			defer func() { <-sem }()
			reports[i] = eng.verifyFunc(u)
		}(i, u)
	}
	wg.Wait()

	return eng.report(*prop, *tier, *verifDir, units, reports, known, loadSecs, start, *noEvidence, *verbose, *funcFilter != "" || *oblFilter != "")
}

func (eng *Engine) report(prop, tier, verifDir string, units []*FuncUnit, reports []*FuncReport, known []KnownFinding, loadSecs float64, start time.Time, noEvidence, verbose, partial bool) int {
	total, discharged, canaries := 0, 0, 0
	confirmed, unconfirmed := 0, 0
	var failed []*Obligation
	var brokenMsgs []string
	brokenMsgs = append(brokenMsgs, eng.broken...)
	solverTime := map[string]float64{}
	solverCount := map[string]int{}
	trusted := map[string]bool{}
	assumptions := map[string]bool{}
	opaque := map[string]bool{}
	abstractions := map[string]bool{}
	funcs := []map[string]any{}
	samples := []map[string]any{}
	kinds := map[string]int{}
	deadReturns := []string{}
	var slowest *Obligation
	for i, r := range reports {
		if r == nil {
			continue
		}
		if r.Error != "" {
			brokenMsgs = append(brokenMsgs, r.Func+": "+r.Error)
		}
		for _, e := range r.SpecErrors {
			brokenMsgs = append(brokenMsgs, r.Func+": "+e)
		}
		for _, e := range r.Unsound {
			brokenMsgs = append(brokenMsgs, r.Func+": unsupported construct: "+e)
		}
		nOK, n := 0, 0
		for _, o := range r.Obligations {
			if o.Status == "skipped" {
				continue
			}
			if o.Kind == "reach" {
				if !o.OK() {
					deadReturns = append(deadReturns, o.Name+" at "+o.Pos)
				}
				continue
			}
			if o.Kind == "canary" {
				canaries++
				if !o.OK() {
					brokenMsgs = append(brokenMsgs, fmt.Sprintf("vacuity canary discharged (assumptions contradictory): %s", o.Name))
				}
				continue
			}
			total++
			n++
			kinds[o.Kind]++
			if o.Status == "error" {
				brokenMsgs = append(brokenMsgs, fmt.Sprintf("solver rejected the VC of %s: %s", o.Name, strings.SplitN(o.Output, "\n", 2)[0]))
			}
			if o.Second == "unsat" {
				confirmed++
			} else if o.Second == "sat" && o.Status == "unsat" {
				brokenMsgs = append(brokenMsgs, fmt.Sprintf("solver disagreement on %s: %s says unsat, %s says sat", o.Name, o.Solver, o.SecondSolver))
			} else if o.Second != "" {
				unconfirmed++
			}
			if o.OK() {
				if verbose && (o.Secs > 1.5 || strings.Contains(o.Solver, "/")) {
					fmt.Printf("  slow: %-90s %.2fs %s\n", o.Name, o.Secs, o.Solver)
				}
				discharged++
				nOK++
				solverTime[o.Solver] += o.Secs
				solverCount[o.Solver]++
				if slowest == nil || o.Secs > slowest.Secs {
					slowest = o
				}
				if len(samples) < 12 && !o.Trivial && (len(samples) == 0 || samples[len(samples)-1]["func"] != o.Func || len(samples) < 4) {
					samples = append(samples, map[string]any{"obligation": o.Name, "kind": o.Kind, "at": o.Pos, "desc": o.Desc, "solver": o.Solver, "secs": round3(o.Secs), "func": o.Func})
				}
			} else {
				failed = append(failed, o)
			}
		}
		if n == 0 && units[i].C != nil {
			brokenMsgs = append(brokenMsgs, "no obligations generated for "+r.Func)
		}
		for _, t := range r.Trusted {
			trusted[t] = true
		}
		for _, t := range r.Assumptions {
			assumptions[t] = true
		}
		for _, t := range r.Opaque {
			opaque[t] = true
		}
		for _, t := range r.Notes {
			abstractions[t] = true
		}
		funcs = append(funcs, map[string]any{"func": r.Func, "file": r.File, "obligations": n, "discharged": nOK,
			"gen_secs": round3(r.GenSecs), "solve_secs": round3(r.SolveSecs), "opaque_callees": r.Opaque, "contract_callees": r.Callees, "abstractions": r.Notes})
		if verbose {
			fmt.Printf("  %-70s %d/%d  gen %.2fs solve %.2fs\n", r.Func, nOK, n, r.GenSecs, r.SolveSecs)
			if len(r.Opaque) > 0 {
				fmt.Printf("      opaque callees: %s\n", strings.Join(r.Opaque, ", "))
			}
			for _, nt := range r.Notes {
				fmt.Printf("      abstraction: %s\n", nt)
			}
		}
	}
	for _, u := range eng.undecided {
		fmt.Println("UNDECIDED:", u)
	}
	for _, m := range eng.missing {
		for _, q := range m.props {
			if q == prop {
				total++
				failed = append(failed, &Obligation{Name: m.name, Kind: "scope", Func: m.name, Pos: m.pos, Desc: m.desc, Expect: "unsat", Status: "missing", Solver: "loader", Output: "not found in /repo's current source"})
			}
		}
	}
	if verbose {
		for _, d := range deadReturns {
			fmt.Println("  note: return unreachable under the contract's assumptions:", d)
		}
	}
	// known findings
	var violations []*Obligation
	knownHit := map[string]bool{}
	for _, o := range failed {
		isKnown := false
		for _, k := range known {
			if k.Property == prop && k.Status == "known" && k.Obligation == o.Name {
				isKnown = true
				if !knownHit[k.Obligation] {
					fmt.Printf("KNOWN-FINDING: property=%s %s (obligation %s)\n", prop, k.What, o.Name)
				}
				knownHit[k.Obligation] = true
			}
		}
		if !isKnown {
			violations = append(violations, o)
		}
	}
	replayDir := filepath.Join(verifDir, "out", "replay", prop)
	exit := 0
	if len(violations) > 0 {
		os.MkdirAll(replayDir, 0o755)
		for _, o := range violations {
			path := filepath.Join(replayDir, strings.ReplaceAll(sanitize(o.Name), "/", "_")+".json")
			rp := map[string]any{"property": prop, "obligation": o.Name, "kind": o.Kind, "func": o.Func, "at": o.Pos, "desc": o.Desc,
				"solver_status": o.Status, "solver": o.Solver, "solver_output": summarizeModel(o.Output, 200), "candidate_model": summarizeModel(o.Model, 400),
				"replayed_on_real_code": false, "note": "obligation generated from /repo's current source did not discharge"}
			suffix := " no-failing-input-found"
			if ok, info := eng.tryReplay(prop, o, rp); ok {
				suffix = ""
				_ = info
			}
			data, _ := json.MarshalIndent(rp, "", " ")
			os.WriteFile(path, data, 0o644)
			fmt.Printf("VIOLATION property=%s replay=%s%s\n", prop, path, suffix)
			fmt.Printf("  failed obligation: %s [%s] at %s: %s (solver: %s/%s)\n", o.Name, o.Kind, o.Pos, o.Desc, o.Solver, o.Status)
		}
		exit = 1
	}
	if len(eng.undecided) > 0 && exit == 0 {
		exit = 3
	}
	if len(brokenMsgs) > 0 {
		for _, m := range brokenMsgs {
			fmt.Println("BROKEN:", m)
		}
		if exit == 0 || exit == 3 {
			exit = 2
		}
	}
	if total == 0 && exit == 0 {
		fmt.Println("BROKEN: zero obligations")
		exit = 2
	}
	wall := time.Since(start).Seconds()
	fmt.Printf("property %s tier %s: %d functions, %d obligations, %d discharged, %d known findings, %d violations, %d canaries ok; load %.1fs wall %.1fs\n",
		prop, tier, len(units), total, discharged, len(knownHit), len(violations), canaries, loadSecs, wall)
	if confirmed+unconfirmed > 0 {
		fmt.Printf("  cross-check: %d discharged obligations confirmed by a second solver, %d without a second answer in time\n", confirmed, unconfirmed)
	}
	if noEvidence || partial {
		return exit
	}
	// evidence
	var tb []string
	tb = append(tb, "govc: home-made VC generator (typed-AST symbolic execution, not itself verified)", "SMT solvers: z3 4.8.12, z3 5.1.0, cvc5 1.0.3", "Go type checker (go/types) and golang.org/x/tools/go/packages")
	tb = append(tb, sortedBoolKeys(trusted)...)
	for m := range trusted {
		_ = m
	}
	as := []string{}
	as = append(as, sortedBoolKeys(assumptions)...)
	for o := range opaque {
		as = append(as, "callee abstracted (results unconstrained, heap havocked): "+o)
	}
	sort.Strings(as)
	abs := []string{}
	abs = append(abs, sortedBoolKeys(abstractions)...)
	seed := 0
	fmt.Sscanf(os.Getenv("VERIF_SEED"), "%d", &seed)
	st := map[string]any{}
	for k, v := range solverTime {
		st[k] = map[string]any{"obligations": solverCount[k], "secs": round3(v)}
	}
	cov := map[string]any{
		"obligations": total - len(knownHit), "discharged": discharged,
		"known_finding_obligations": sortedBoolKeys(knownHit),
		"checker_cmd": fmt.Sprintf("/verif/check %s --tier %s", prop, tier),
		"trusted_base": tb, "samples": samples, "functions_under_contract": funcs,
		"obligation_kinds": kinds, "vacuity_canaries_ok": canaries, "solver_time": st,
		"known_findings_hit": len(knownHit), "undischarged": len(failed), "returns_unreachable_under_assumptions": deadReturns,
		"abstractions_used": abs, "load_secs": round3(loadSecs),
		"second_solver_confirmed": confirmed, "second_solver_no_answer": unconfirmed,
		"integer_semantics": "Go machine integers are SMT Int with range typing; unsigned arithmetic wraps (mod 2^n); signed arithmetic is mathematical unless the function has `safety overflow`; big.Int/Quantity are mathematical integers",
		"extraction_drops":  "logging/metrics calls and error-message formatting have no modelled effect; callees without contract are abstracted (fresh results; heap havocked); see abstractions_used",
	}
	if slowest != nil {
		cov["slowest_obligation"] = map[string]any{"name": slowest.Name, "secs": round3(slowest.Secs), "solver": slowest.Solver}
	}
	if extra := propExtra(verifDir, prop); extra != nil {
		for k, v := range extra {
			cov[k] = v
		}
	}
	ev := map[string]any{"property_id": prop, "tier": tier, "seed": seed, "level": "proof", "coverage": cov,
		"assumptions": as, "wall_s": round3(wall), "violations": len(violations)}
	os.MkdirAll(filepath.Join(verifDir, "evidence"), 0o755)
	data, _ := json.MarshalIndent(ev, "", " ")
	if err := os.WriteFile(filepath.Join(verifDir, "evidence", prop+".json"), data, 0o644); err != nil {
		fmt.Println("BROKEN: cannot write evidence:", err)
		return 2
	}
	return exit
}

func round3(f float64) float64 { return float64(int(f*1000+0.5)) / 1000 }

// propExtra reads static per-property notes (decided/undecided clauses).
func propExtra(verifDir, prop string) map[string]any {
	data, err := os.ReadFile(filepath.Join(verifDir, "props", prop+".json"))
	if err != nil {
		return nil
	}
	var m map[string]any
	if json.Unmarshal(data, &m) != nil {
		return nil
	}
	return m
}

var _ = ast.Inspect
