package main

// Replay of solver counterexamples against the real code. Families with a
// template return true when the real code reproduces the failure.

func (eng *Engine) tryReplay(prop string, o *Obligation, rp map[string]any) (bool, string) {
	return false, ""
}
