package main

// Replay of solver counterexamples against the real code.
//
// Family "values": functions whose parameters are byte slices, integers,
// booleans and strings, with a receiver that can be created as a zero value.
// The candidate model of a failed obligation is turned into concrete
// arguments, the real function is called in an in-package test injected with
// `go test -overlay` (nothing is written under /repo), and the test fails iff
// the call panics or an executable postcondition of the contract is false.

import (
	"bytes"
	"context"
	"encoding/json"
	"fmt"
	"go/types"
	"os"
	"os/exec"
	"path/filepath"
	"regexp"
	"strconv"
	"strings"
	"time"
)

type ReplayResult struct {
	Attempted  bool     `json:"attempted"`
	Reproduced bool     `json:"reproduced_on_real_code"`
	Inputs     []string `json:"inputs,omitempty"`
	TestFile   string   `json:"test_file,omitempty"`
	PkgDir     string   `json:"pkg_dir,omitempty"`
	Output     string   `json:"output,omitempty"`
	Why        string   `json:"why_not,omitempty"`
}

const replayMaxBytes = 96

// replayable decides whether the function fits the "values" family and
// returns the Go source pieces needed for the test.
func (fv *FV) replayPlan() (ok bool, why string) {
	u := fv.u
	if u.lemma || u.Decl.Body == nil {
		return false, "not a function with a body"
	}
	sig := u.Fn.Type().(*types.Signature)
	if sig.Variadic() || sig.TypeParams() != nil {
		return false, "variadic or generic"
	}
	for i := 0; i < sig.Params().Len(); i++ {
		if !replayableParam(sig.Params().At(i).Type()) {
			return false, "parameter " + sig.Params().At(i).Name() + " of type " + typeStr(sig.Params().At(i).Type()) + " is outside the replay family"
		}
	}
	if r := sig.Recv(); r != nil {
		t := deref(r.Type())
		if _, isNamed := types.Unalias(t).(*types.Named); !isNamed {
			return false, "receiver type"
		}
		if !replayableRecv(t) {
			return false, "receiver of type " + typeStr(t) + " is outside the replay family"
		}
	}
	return true, ""
}

func replayableParam(t types.Type) bool {
	switch u := t.Underlying().(type) {
	case *types.Basic:
		return u.Info()&(types.IsInteger|types.IsBoolean|types.IsString) != 0
	case *types.Slice:
		b, ok := u.Elem().Underlying().(*types.Basic)
		return ok && b.Kind() == types.Uint8
	}
	return false
}

func replayableRecv(t types.Type) bool {
	switch u := t.Underlying().(type) {
	case *types.Struct:
		return true // zero value
	case *types.Basic:
		return u.Info()&types.IsInteger != 0
	case *types.Slice:
		b, ok := u.Elem().Underlying().(*types.Basic)
		return ok && b.Kind() == types.Uint8
	case *types.Array:
		b, ok := u.Elem().Underlying().(*types.Basic)
		return ok && b.Kind() == types.Uint8
	}
	return false
}

var getValueRe = regexp.MustCompile(`\(\(?(.+?) (\(- \d+\)|\d+|true|false)\)\)?$`)

// modelValues asks the solver for the values of the given terms in a model of
// the failed obligation (quantifier-free part), with extra constraints.
func (fv *FV) modelValues(o *Obligation, extra []string, terms []string, dir string) (map[string]string, bool) {
	base := fv.s.queryQF(o.upto, o.goal)
	base = strings.Replace(base, "(check-sat)\n(get-model)\n", "", 1)
	var b strings.Builder
	b.WriteString(base)
	for _, x := range extra {
		b.WriteString("(assert " + x + ")\n")
	}
	b.WriteString("(check-sat)\n")
	for _, t := range terms {
		b.WriteString("(get-value (" + t + "))\n")
	}
	file := filepath.Join(dir, "replay.smt2")
	os.MkdirAll(dir, 0o755)
	if err := os.WriteFile(file, []byte(b.String()), 0o644); err != nil {
		return nil, false
	}
	defer os.Remove(file)
	ctx, cancel := context.WithTimeout(context.Background(), 15*time.Second)
	defer cancel()
	out, _ := exec.CommandContext(ctx, "z3-new", "-T:10", file).Output()
	text := strings.TrimSpace(string(out))
	if !strings.HasPrefix(text, "sat") {
		return nil, false
	}
	text = strings.TrimSpace(strings.TrimPrefix(text, "sat"))
	vals := map[string]string{}
	// the responses are a sequence of ((term value)) s-expressions, possibly spanning lines
	pos := 0
	for _, t := range terms {
		for pos < len(text) && text[pos] != '(' {
			pos++
		}
		if pos >= len(text) {
			break
		}
		end := matchClose(text, pos)
		if end < 0 {
			break
		}
		resp := parseSx(text[pos : end+1])
		pos = end + 1
		if len(resp.kids) == 1 && len(resp.kids[0].kids) == 2 {
			vals[t] = resp.kids[0].kids[1].String()
		}
	}
	return vals, true
}

func smtIntToGo(v string) (string, bool) {
	v = strings.TrimSpace(v)
	if strings.HasPrefix(v, "(- ") {
		return "-" + strings.TrimSuffix(strings.TrimPrefix(v, "(- "), ")"), true
	}
	if _, err := strconv.ParseUint(v, 10, 64); err == nil {
		return v, true
	}
	return "", false
}

// tryReplayObl builds and runs the replay test for a failed obligation.
func (fv *FV) tryReplayObl(o *Obligation, dir string) *ReplayResult {
	res := &ReplayResult{}
	ok, why := fv.replayPlan()
	if !ok {
		res.Why = why
		return res
	}
	res.Attempted = true
	u := fv.u
	sig := u.Fn.Type().(*types.Signature)
	// terms to evaluate
	var terms, extra []string
	type pinfo struct {
		v    *types.Var
		val  Value
		kind string
	}
	var ps []pinfo
	for i := 0; i < sig.Params().Len(); i++ {
		p := sig.Params().At(i)
		val := fv.entryVals[p]
		pi := pinfo{v: p, val: val}
		switch {
		case val.K == kSlice:
			pi.kind = "bytes"
			terms = append(terms, val.Len.S, fmt.Sprintf("(= %s null)", val.T.S))
			extra = append(extra, fmt.Sprintf("(<= %s %d)", val.Len.S, replayMaxBytes))
			inner := fv.sliceInner(fv.entry, val, sInt)
			for k := 0; k < replayMaxBytes; k++ {
				bt := fmt.Sprintf("(select %s (+ %s %d))", inner.S, val.Off.S, k)
				terms = append(terms, bt)
				extra = append(extra, fmt.Sprintf("(and (<= 0 %s) (<= %s 255))", bt, bt)) // real bytes
			}
		case val.T.Sort == sInt:
			pi.kind = "int"
			terms = append(terms, val.T.S)
		case val.T.Sort == sBool:
			pi.kind = "bool"
			terms = append(terms, val.T.S)
		default:
			pi.kind = "zero"
		}
		ps = append(ps, pi)
	}
	vals, sat := fv.modelValues(o, extra, terms, dir)
	if !sat {
		res.Why = "no small model (byte slices limited to " + strconv.Itoa(replayMaxBytes) + " bytes) within the time limit"
		return res
	}
	// build argument expressions
	var args []string
	qual := func(p *types.Package) string {
		if p == u.Fn.Pkg() {
			return ""
		}
		return p.Name()
	}
	for _, pi := range ps {
		tstr := types.TypeString(pi.v.Type(), qual)
		switch pi.kind {
		case "bytes":
			n, _ := strconv.Atoi(vals[pi.val.Len.S])
			isNil := vals[fmt.Sprintf("(= %s null)", pi.val.T.S)] == "true"
			inner := fv.sliceInner(fv.entry, pi.val, sInt)
			var bs []string
			for k := 0; k < n && k < replayMaxBytes; k++ {
				v := vals[fmt.Sprintf("(select %s (+ %s %d))", inner.S, pi.val.Off.S, k)]
				g, ok := smtIntToGo(v)
				if !ok {
					g = "0"
				}
				iv, _ := strconv.ParseInt(g, 10, 64)
				bs = append(bs, strconv.Itoa(int(((iv%256)+256)%256)))
			}
			if isNil && n == 0 {
				args = append(args, tstr+"(nil)")
			} else {
				args = append(args, tstr+"([]byte{"+strings.Join(bs, ", ")+"})")
			}
			res.Inputs = append(res.Inputs, fmt.Sprintf("%s = %d bytes [%s]", pi.v.Name(), n, strings.Join(bs, " ")))
		case "int":
			g, ok := smtIntToGo(vals[pi.val.T.S])
			if !ok {
				g = "0"
			}
			args = append(args, tstr+"("+g+")")
			res.Inputs = append(res.Inputs, pi.v.Name()+" = "+g)
		case "bool":
			args = append(args, vals[pi.val.T.S])
			res.Inputs = append(res.Inputs, pi.v.Name()+" = "+vals[pi.val.T.S])
		default:
			args = append(args, "*new("+tstr+")")
		}
	}
	// test source
	var src bytes.Buffer
	fmt.Fprintf(&src, "package %s\n\nimport \"testing\"\n\n", u.Pkg.Name)
	fmt.Fprintf(&src, "// Generated by govc: replay of a counterexample for obligation\n// %s\nfunc TestVerifReplay(t *testing.T) {\n", o.Name)
	fmt.Fprintf(&src, "\tdefer func() {\n\t\tif r := recover(); r != nil {\n\t\t\tt.Fatalf(\"VERIF-REPLAY-FAIL: the real code panics: %%v\", r)\n\t\t}\n\t}()\n")
	call := u.Fn.Name() + "(" + strings.Join(args, ", ") + ")"
	if r := sig.Recv(); r != nil {
		rt := types.TypeString(deref(r.Type()), qual)
		fmt.Fprintf(&src, "\tvar recv %s\n", rt)
		call = "recv." + call
	}
	nres := sig.Results().Len()
	var rn []string
	for i := 0; i < nres; i++ {
		rn = append(rn, fmt.Sprintf("r%d", i))
	}
	if nres > 0 {
		fmt.Fprintf(&src, "\t%s := %s\n", strings.Join(rn, ", "), call)
		for _, r := range rn {
			fmt.Fprintf(&src, "\t_ = %s\n", r)
		}
	} else {
		fmt.Fprintf(&src, "\t%s\n", call)
	}
	fmt.Fprintf(&src, "}\n")
	testFile := filepath.Join(dir, "zz_verif_replay_test.go")
	os.WriteFile(testFile, src.Bytes(), 0o644)
	pkgDir := filepath.Dir(fv.eng.fset.Position(u.Decl.Pos()).Filename)
	ov := map[string]map[string]string{"Replace": {filepath.Join(pkgDir, "zz_verif_replay_test.go"): testFile}}
	ovData, _ := json.Marshal(ov)
	ovFile := filepath.Join(dir, "overlay.json")
	os.WriteFile(ovFile, ovData, 0o644)
	ctx, cancel := context.WithTimeout(context.Background(), 180*time.Second)
	defer cancel()
	cmd := exec.CommandContext(ctx, "go", "test", "-overlay", ovFile, "-vet=off", "-count=1", "-timeout", "60s", "-run", "^TestVerifReplay$", ".")
	cmd.Dir = pkgDir
	cmd.Env = append(os.Environ(), "GOFLAGS=-mod=mod", "GOPROXY=off", "GOTOOLCHAIN=local")
	out, err := cmd.CombinedOutput()
	res.Output = summarizeModel(string(out), 40)
	res.TestFile = string(src.Bytes())
	res.PkgDir = strings.TrimPrefix(pkgDir, repoGo+"/")
	if err != nil && strings.Contains(string(out), "VERIF-REPLAY-FAIL") {
		res.Reproduced = true
	} else if err != nil {
		res.Why = "replay test did not run to a verdict"
	} else {
		res.Why = "the real code does not fail on this input (the abstraction is coarser than the code, or the failed obligation is not a run-time failure)"
	}
	return res
}

func (eng *Engine) tryReplay(prop string, o *Obligation, rp map[string]any) (bool, string) {
	if o.Replay == nil {
		return false, ""
	}
	rp["replay"] = o.Replay
	rp["replayed_on_real_code"] = o.Replay.Reproduced
	return o.Replay.Reproduced, ""
}

// cmdReplay re-runs the test stored in a replay file against /repo's current tree.
func cmdReplay(args []string) int {
	var prop, file string
	for i := 0; i+1 < len(args); i++ {
		switch args[i] {
		case "-prop":
			prop = args[i+1]
		case "-file":
			file = args[i+1]
		}
	}
	data, err := os.ReadFile(file)
	if err != nil {
		fmt.Fprintln(os.Stderr, "cannot read replay file:", err)
		return 2
	}
	var rp struct {
		Obligation string        `json:"obligation"`
		Replay     *ReplayResult `json:"replay"`
	}
	if err := json.Unmarshal(data, &rp); err != nil {
		fmt.Fprintln(os.Stderr, "bad replay file:", err)
		return 2
	}
	if rp.Replay == nil || rp.Replay.TestFile == "" {
		fmt.Printf("replay file names obligation %s; it carries no executable input (no-failing-input-found)\n", rp.Obligation)
		return 0
	}
	dir, _ := os.MkdirTemp("", "govc-replay")
	defer os.RemoveAll(dir)
	testFile := filepath.Join(dir, "zz_verif_replay_test.go")
	os.WriteFile(testFile, []byte(rp.Replay.TestFile), 0o644)
	pkgDir := filepath.Join(repoGo, rp.Replay.PkgDir)
	ov := map[string]map[string]string{"Replace": {filepath.Join(pkgDir, "zz_verif_replay_test.go"): testFile}}
	ovData, _ := json.Marshal(ov)
	ovFile := filepath.Join(dir, "overlay.json")
	os.WriteFile(ovFile, ovData, 0o644)
	cmd := exec.Command("go", "test", "-overlay", ovFile, "-vet=off", "-count=1", "-timeout", "60s", "-run", "^TestVerifReplay$", ".")
	cmd.Dir = pkgDir
	cmd.Env = append(os.Environ(), "GOFLAGS=-mod=mod", "GOPROXY=off", "GOTOOLCHAIN=local")
	out, err := cmd.CombinedOutput()
	fmt.Print(string(out))
	if err != nil && strings.Contains(string(out), "VERIF-REPLAY-FAIL") {
		fmt.Printf("VIOLATION property=%s replay=%s\n", prop, file)
		return 1
	}
	fmt.Println("replay: the real code does not fail on the recorded input")
	return 0
}
