package main

// Static over-approximation of which ghost call counters (bump: class) a
// function under contract may increment, directly or through statically
// resolved in-module callees. Used when a contracted callee has no `modifies`
// clause (its call havocs the heap): counters it provably cannot bump survive.

import (
	"fmt"
	"os"
	"go/ast"
	"go/types"
)

const bumpAll = "*"

// bumpSet returns the set of counters fn may bump ("*" = any).
func (eng *Engine) bumpSet(fn *types.Func) map[string]bool {
	eng.mu.Lock()
	defer eng.mu.Unlock()
	return eng.bumpSetLocked(fn, map[*types.Func]bool{})
}

// bumpSetInner: the counters the BODY of fn may bump - fn's own counted event
// (if it is itself a counted function) is added by the caller after the havoc,
// so it must not make the counter forget its value.
func (eng *Engine) bumpSetInner(fn *types.Func) map[string]bool {
	eng.mu.Lock()
	defer eng.mu.Unlock()
	if fn != nil && len(eng.bumpsOf(fn)) > 0 && !isIfaceMethod(fn) && eng.inModule(fn) {
		f := fn
		if o := fn.Origin(); o != nil {
			f = o
		}
		return eng.bumpBodyLocked(f, map[*types.Func]bool{})
	}
	return eng.bumpSetLocked(fn, map[*types.Func]bool{})
}

func (eng *Engine) bumpSetLocked(fn *types.Func, onStack map[*types.Func]bool) map[string]bool {
	if fn == nil {
		return map[string]bool{bumpAll: true}
	}
	if o := fn.Origin(); o != nil {
		fn = o
	}
	if bs := eng.bumpsOf(fn); len(bs) > 0 {
		out := map[string]bool{}
		for _, b := range bs {
			out[b.name] = true
		}
		return out
	}
	if s, ok := eng.bumpMemo[fn]; ok {
		return s
	}
	if isIfaceMethod(fn) || !eng.inModule(fn) {
		return map[string]bool{} // cannot call counted functions on behalf of verified code
	}
	return eng.bumpBodyLocked(fn, onStack)
}

func (eng *Engine) bumpBodyLocked(fn *types.Func, onStack map[*types.Func]bool) map[string]bool {
	if s, ok := eng.bumpMemo[fn]; ok {
		return s
	}
	di := eng.decls[fn]
	if di == nil && fn.Pkg() != nil {
		// lazily index the declarations of a dependency loaded with syntax
		if p := eng.byPath[fn.Pkg().Path()]; p != nil && p.TypesInfo != nil && !eng.declIndexed[p.PkgPath] {
			eng.declIndexed[p.PkgPath] = true
			for _, f := range p.Syntax {
				for _, d := range f.Decls {
					if fd, ok := d.(*ast.FuncDecl); ok {
						if o, _ := p.TypesInfo.Defs[fd.Name].(*types.Func); o != nil {
							if _, have := eng.decls[o]; !have {
								eng.decls[o] = &declInfo{fd, p}
							}
						}
					}
				}
			}
			di = eng.decls[fn]
		}
	}
	if di == nil || di.decl.Body == nil {
		if os.Getenv("GOVC_DEBUG_BUMPS") != "" {
			fmt.Fprintf(os.Stderr, "bumps: no syntax for %s\n", fn.FullName())
		}
		return map[string]bool{bumpAll: true} // in-module code we have no syntax for
	}
	if onStack[fn] {
		return map[string]bool{} // recursion: contributes nothing beyond the other calls
	}
	onStack[fn] = true
	defer delete(onStack, fn)
	out := map[string]bool{}
	info := di.pkg.TypesInfo
	ast.Inspect(di.decl.Body, func(n ast.Node) bool {
		call, ok := n.(*ast.CallExpr)
		if !ok {
			return true
		}
		if tv, ok := info.Types[call.Fun]; ok && (tv.IsType() || tv.IsBuiltin()) {
			return true
		}
		var callee *types.Func
		switch f := ast.Unparen(call.Fun).(type) {
		case *ast.Ident:
			callee, _ = info.Uses[f].(*types.Func)
		case *ast.SelectorExpr:
			if sel, ok := info.Selections[f]; ok {
				if sel.Kind() == types.MethodVal {
					callee, _ = sel.Obj().(*types.Func)
				}
			} else {
				callee, _ = info.Uses[f.Sel].(*types.Func)
			}
		case *ast.IndexExpr:
			if id := identOf(f.X); id != nil {
				callee, _ = info.Uses[id].(*types.Func)
			}
		case *ast.FuncLit:
			return true // body inspected in place
		}
		if callee == nil {
			// call of a function value: a local closure's body is inspected in place;
			// anything else is unknown
			if id, ok := ast.Unparen(call.Fun).(*ast.Ident); ok {
				if v, ok := info.Uses[id].(*types.Var); ok && !v.IsField() && v.Parent() != nil && v.Parent() != v.Pkg().Scope() {
					if _, isParam := paramOf(di.decl, v); !isParam {
						return true
					}
				}
			}
			if os.Getenv("GOVC_DEBUG_BUMPS") != "" {
				fmt.Fprintf(os.Stderr, "bumps: function-value call %s in %s\n", types.ExprString(call.Fun), fn.FullName())
			}
			out[bumpAll] = true
			return true
		}
		for k := range eng.bumpSetLocked(callee, onStack) {
			out[k] = true
		}
		return true
	})
	eng.bumpMemo[fn] = out
	return out
}

func paramOf(fd *ast.FuncDecl, v *types.Var) (int, bool) {
	if fd.Type.Params == nil {
		return 0, false
	}
	i := 0
	for _, f := range fd.Type.Params.List {
		for _, n := range f.Names {
			if n.Pos() == v.Pos() {
				return i, true
			}
			i++
		}
	}
	return 0, false
}
