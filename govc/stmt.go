package main

// Symbolic execution of statements.

import (
	"fmt"
	"sort"
	"strings"
	"sync"
	"go/ast"
	"go/token"
	"go/types"
)

type jumpFrame struct {
	label     string
	isLoop    bool
	breaks    []*Env
	continues []*Env
}

type Exit struct {
	env     *Env
	results []Value
	pos     token.Pos
}

func (fv *FV) block(e *Env, stmts []ast.Stmt) {
	for _, s := range stmts {
		if e.dead {
			return
		}
		fv.stmt(e, s, "")
	}
}

func (fv *FV) kill(e *Env) {
	e.dead = true
	e.pc = tFalse
}

func (fv *FV) stmt(e *Env, s ast.Stmt, label string) {
	if e.dead {
		return
	}
	switch s := s.(type) {
	case *ast.BlockStmt:
		fv.block(e, s.List)
	case *ast.ExprStmt:
		fv.expr(e, s.X)
	case *ast.EmptyStmt:
	case *ast.LabeledStmt:
		fv.stmt(e, s.Stmt, s.Label.Name)
	case *ast.DeclStmt:
		gd, ok := s.Decl.(*ast.GenDecl)
		if !ok || gd.Tok != token.VAR {
			return
		}
		for _, sp := range gd.Specs {
			vs := sp.(*ast.ValueSpec)
			if len(vs.Values) == 0 {
				for _, n := range vs.Names {
					obj := fv.info.Defs[n]
					if obj == nil {
						continue
					}
					fv.defineVar(e, obj.(*types.Var), fv.zeroValue(e, obj.Type()), true)
				}
				continue
			}
			if len(vs.Values) == len(vs.Names) {
				for i, n := range vs.Names {
					v := fv.expr(e, vs.Values[i])
					if obj := fv.info.Defs[n]; obj != nil {
						fv.defineVar(e, obj.(*types.Var), v, false)
					}
				}
			} else {
				v := fv.expr(e, vs.Values[0])
				for i, n := range vs.Names {
					if obj := fv.info.Defs[n]; obj != nil && v.K == kTuple && i < len(v.Tuple) {
						fv.defineVar(e, obj.(*types.Var), v.Tuple[i], false)
					}
				}
			}
		}
	case *ast.AssignStmt:
		fv.assign(e, s)
	case *ast.IncDecStmt:
		lv := fv.lvalue(e, s.X)
		cur := fv.load(e, lv)
		op := "+"
		if s.Tok == token.DEC {
			op = "-"
		}
		if cur.T.Sort == sInt {
			fv.storeLV(e, lv, fv.arith(e, s, op, cur.T, intLit(1), lv.typ))
		} else {
			fv.storeLV(e, lv, fv.unknown(lv.typ, "incdec"))
		}
	case *ast.ReturnStmt:
		if fv.retSeen == nil {
			fv.retSeen = map[token.Pos]bool{}
		}
		fv.retSeen[s.Pos()] = true
		fv.ret(e, s)
	case *ast.IfStmt:
		if s.Init != nil {
			fv.stmt(e, s.Init, "")
		}
		c := fv.expr(e, s.Cond).T
		yes := fv.withCond(e, c)
		no := fv.withCond(e, not(c))
		fv.block(yes, s.Body.List)
		if s.Else != nil {
			fv.stmt(no, s.Else, "")
		}
		*e = *fv.mergeEnvs([]*Env{yes, no})
	case *ast.SwitchStmt:
		fv.switchStmt(e, s, label)
	case *ast.TypeSwitchStmt:
		fv.typeSwitch(e, s, label)
	case *ast.ForStmt:
		fv.forStmt(e, s, label)
	case *ast.RangeStmt:
		fv.rangeStmt(e, s, label)
	case *ast.BranchStmt:
		fv.branch(e, s)
	case *ast.DeferStmt:
		fv.defers = append(fv.defers, deferred{call: s.Call, pc: e.pc})
		if lit, ok := ast.Unparen(s.Call.Fun).(*ast.FuncLit); ok && fv.spec == nil && fv.u != nil && fv.u.C != nil && fv.inlineDepth == 0 && fv.u.C.ClosureChecked[funcLitOrd(fv.u.Decl, lit)] {
			// a deferred literal also runs when the function panics, in a state the normal
			// exits do not cover: `closure N checked/ensures` executes its body on its own
			fv.probeClosureBody(e, lit)
		}
		// arguments are evaluated now; we approximate by evaluating at exit
	case *ast.GoStmt:
		fv.note("go statement: spawned call abstracted, heap havocked")
		fv.havocAll(e)
	case *ast.SendStmt:
		fv.note("channel send abstracted")
		fv.expr(e, s.Value)
		fv.storeComp(e, chanSendsComp, sInt, add(fv.loadComp(e, chanSendsComp, sInt, tNull), intLit(1)), tNull)
	case *ast.SelectStmt:
		fv.note("select statement abstracted: all assigned variables and heap havocked")
		sendsBefore := fv.loadComp(e, chanSendsComp, sInt, tNull)
		fv.havocAssigned(e, s)
		fv.havocAll(e)
		fv.storeComp(e, chanSendsComp, sInt, sendsBefore, tNull)
		// explore each clause body
		var outs []*Env
		for _, c := range s.Body.List {
			cc := c.(*ast.CommClause)
			b := fv.withCond(e, fv.s.freshConst("select", sBool))
			if snd, isSend := cc.Comm.(*ast.SendStmt); isSend {
				// the clause is taken exactly when its send happened
				fv.expr(b, snd.Value)
				fv.storeComp(b, chanSendsComp, sInt, add(sendsBefore, intLit(1)), tNull)
			}
			fv.frames = append(fv.frames, &jumpFrame{label: label})
			fv.block(b, cc.Body)
			fr := fv.frames[len(fv.frames)-1]
			fv.frames = fv.frames[:len(fv.frames)-1]
			outs = append(outs, b)
			outs = append(outs, fr.breaks...)
		}
		*e = *fv.mergeEnvs(outs)
	default:
		fv.note("unsupported statement %T: havoc", s)
		fv.havocAssigned(e, s)
		fv.havocAll(e)
	}
}

type deferred struct {
	call *ast.CallExpr
	pc   Term
}

func (fv *FV) defineVar(e *Env, v *types.Var, val Value, isZero bool) {
	if v.Name() == "_" {
		return
	}
	t := v.Type()
	if fv.localMaps[v] {
		if val.K != kMap {
			mt := t.Underlying().(*types.Map)
			if isZero || fv.freshMapRefs[val.T.S] {
				val = fv.emptyLocalMap(mt)
			} else {
				val = fv.freshLocalMap(mt, v.Name())
			}
		}
		e.vars[v] = val
		return
	}
	if fv.boxed[v] && !isObjectType(t) {
		r := fv.allocRef(e, v.Name()+"&")
		fv.storeCell(e, boxComp(t), t, "", val, r)
		e.vars[v] = Value{K: kScalar, T: r, Type: t}
		return
	}
	if isObjectType(t) {
		if isZero {
			e.vars[v] = val
			return
		}
		r := fv.allocRef(e, v.Name())
		fv.copyObject(e, r, val.T, t)
		e.vars[v] = Value{K: kScalar, T: r, Type: t}
		return
	}
	k, s := sortOf(t)
	if k == kScalar && val.K == kScalar && val.T.Sort != s {
		val = fv.coerce(val, s)
	}
	if k == kSlice && val.K != kSlice {
		val = fv.freshValue(t, v.Name())
	}
	if k == kScalar && val.K != kScalar {
		val = fv.freshValue(t, v.Name())
	}
	val.Type = t
	if val.K == kScalar && len(val.T.S) > 48 {
		// name large terms to keep verification conditions small
		n := fv.s.freshConst(v.Name(), val.T.Sort)
		fv.s.assume(eq(n, val.T))
		val.T = n
	}
	e.vars[v] = val
}

func (fv *FV) assign(e *Env, s *ast.AssignStmt) {
	if s.Tok != token.ASSIGN && s.Tok != token.DEFINE {
		// op-assign
		lv := fv.lvalue(e, s.Lhs[0])
		cur := fv.load(e, lv)
		rhs := fv.expr(e, s.Rhs[0])
		op := s.Tok.String()
		op = op[:len(op)-1]
		if cur.T.Sort == sInt && rhs.T.Sort == sInt {
			fv.storeLV(e, lv, fv.arith(e, s, op, cur.T, rhs.T, lv.typ))
		} else if cur.T.Sort == sStr && op == "+" {
			fv.storeLV(e, lv, Value{K: kScalar, T: fv.strCat(cur.T, rhs.T)})
		} else {
			fv.storeLV(e, lv, fv.unknown(lv.typ, "op-assign"))
		}
		return
	}
	var vals []Value
	if len(s.Rhs) == 1 && len(s.Lhs) > 1 {
		v := fv.multi(e, s.Rhs[0], len(s.Lhs))
		vals = v
	} else {
		for _, r := range s.Rhs {
			vals = append(vals, fv.expr(e, r))
		}
	}
	// snapshot object values for struct copies in parallel assignment is ignored
	for i, l := range s.Lhs {
		if i >= len(vals) {
			break
		}
		if id, ok := l.(*ast.Ident); ok {
			if id.Name == "_" {
				continue
			}
			if s.Tok == token.DEFINE {
				if obj := fv.info.Defs[id]; obj != nil {
					fv.defineVar(e, obj.(*types.Var), vals[i], false)
					continue
				}
			}
		}
		fv.checkPreAssign(e, l)
		lv := fv.lvalue(e, l)
		fv.storeLV(e, lv, vals[i])
	}
}

// checkPreAssign generates the obligations of `preassign T.f :: P` clauses for
// an assignment whose target is field f of a T.
func (fv *FV) checkPreAssign(e *Env, l ast.Expr) {
	if fv.spec != nil || fv.u == nil || fv.u.C == nil || len(fv.u.C.PreAssigns) == 0 || e.dead {
		return
	}
	se, ok := ast.Unparen(l).(*ast.SelectorExpr)
	if !ok {
		return
	}
	sel, ok := fv.info.Selections[se]
	if !ok || sel.Kind() != types.FieldVal {
		return
	}
	n, ok := types.Unalias(deref(sel.Recv())).(*types.Named)
	if !ok {
		return
	}
	for _, pa := range fv.u.C.PreAssigns {
		if pa.Field != se.Sel.Name || pa.Type != n.Obj().Name() {
			continue
		}
		t := fv.specTermO(e, pa.Cl, &specCtx{old: fv.entry, preAlloc: fv.entry.alloc, lenient: true})
		fv.obligeNamed(e, "preassign", fmt.Sprintf("preassign:%s#%d", pa.Cl.Label, fv.siteOrd("preassign"+pa.Cl.Label)), l,
			fmt.Sprintf("field %s.%s is assigned only when %q", pa.Type, pa.Field, pa.Cl.Text), t)
	}
}

// multi evaluates an expression in a multi-value context.
func (fv *FV) multi(e *Env, x ast.Expr, n int) []Value {
	x = ast.Unparen(x)
	switch x := x.(type) {
	case *ast.CallExpr:
		v := fv.call(e, x)
		if v.K == kTuple && len(v.Tuple) == n {
			return v.Tuple
		}
	case *ast.IndexExpr:
		if lm, ok := fv.localMapOf(e, x.X); ok {
			k := fv.expr(e, x.Index)
			v, present := fv.localMapLoad(lm, fv.typeOf(x.X).Underlying().(*types.Map), k.T)
			return []Value{v, {K: kScalar, T: present}}
		}
		if bt := fv.typeOf(x.X); bt != nil {
			if mt, ok := bt.Underlying().(*types.Map); ok {
				m := fv.expr(e, x.X)
				k := fv.expr(e, x.Index)
				v, present := fv.mapLoad(e, m, mt, k)
				return []Value{v, {K: kScalar, T: present}}
			}
		}
	case *ast.TypeAssertExpr:
		v := fv.expr(e, x.X)
		return fv.typeAssert(e, v, fv.typeOf(x.Type), x, true).Tuple
	case *ast.UnaryExpr:
		if x.Op == token.ARROW {
			fv.note("channel receive abstracted")
			fv.havocAll(e)
		}
	}
	var out []Value
	if tup, ok := fv.typeOf(x).(*types.Tuple); ok {
		for i := 0; i < tup.Len(); i++ {
			out = append(out, fv.freshValue(tup.At(i).Type(), "multi"))
		}
		return out
	}
	for i := 0; i < n; i++ {
		out = append(out, fv.freshValue(nil, "multi"))
	}
	return out
}

func (fv *FV) ret(e *Env, s *ast.ReturnStmt) {
	sig := fv.u.Fn.Type().(*types.Signature)
	if fv.inlineRet != nil {
		sig = fv.inlineRet.sig
	}
	var vals []Value
	res := sig.Results()
	switch {
	case len(s.Results) == 0:
		for i := 0; i < res.Len(); i++ {
			v, ok := e.vars[res.At(i)]
			if !ok {
				v = fv.zeroValue(e, res.At(i).Type())
			}
			if fv.boxed[res.At(i)] {
				v = fv.loadCell(e, boxComp(res.At(i).Type()), res.At(i).Type(), "", v.T)
			}
			vals = append(vals, v)
		}
	case len(s.Results) == 1 && res.Len() > 1:
		vals = fv.multi(e, s.Results[0], res.Len())
	default:
		for _, r := range s.Results {
			vals = append(vals, fv.expr(e, r))
		}
	}
	if e.dead {
		return
	}
	for i := range vals {
		if i < res.Len() {
			vals[i].Type = res.At(i).Type()
			k, srt := sortOf(res.At(i).Type())
			if k == kScalar && vals[i].K == kScalar && vals[i].T.Sort != srt {
				vals[i] = fv.coerce(vals[i], srt)
			}
			if k == kSlice && vals[i].K != kSlice {
				if vals[i].T.S == "null" {
					vals[i] = Value{K: kSlice, T: tNull, Off: intLit(0), Len: intLit(0), Cap: intLit(0), Type: res.At(i).Type()}
				} else {
					vals[i] = fv.freshValue(res.At(i).Type(), "ret")
				}
			}
		}
	}
	// named results are assigned (visible to deferred closures)
	for i := 0; i < res.Len() && i < len(vals); i++ {
		if res.At(i).Name() != "" && res.At(i).Name() != "_" && !fv.boxed[res.At(i)] {
			e.vars[res.At(i)] = vals[i]
		}
	}
	if fv.inlineRet != nil {
		fv.inlineRet.exits = append(fv.inlineRet.exits, &Exit{env: e.clone(), results: vals, pos: s.Pos()})
	} else {
		fv.exits = append(fv.exits, &Exit{env: e.clone(), results: vals, pos: s.Pos()})
	}
	fv.kill(e)
}

func (fv *FV) branch(e *Env, s *ast.BranchStmt) {
	lbl := ""
	if s.Label != nil {
		lbl = s.Label.Name
	}
	switch s.Tok {
	case token.BREAK:
		for i := len(fv.frames) - 1; i >= 0; i-- {
			f := fv.frames[i]
			if lbl == "" || f.label == lbl {
				f.breaks = append(f.breaks, e.clone())
				fv.kill(e)
				return
			}
		}
	case token.CONTINUE:
		for i := len(fv.frames) - 1; i >= 0; i-- {
			f := fv.frames[i]
			if f.isLoop && (lbl == "" || f.label == lbl) {
				f.continues = append(f.continues, e.clone())
				fv.kill(e)
				return
			}
		}
	case token.FALLTHROUGH:
		fv.fallthroughs = append(fv.fallthroughs, e.clone())
		fv.kill(e)
		return
	}
	fv.note("unsupported branch statement %s: path abandoned after havoc", s.Tok)
	fv.unsound("goto/unsupported branch at " + fv.posStr(s.Pos()))
	fv.kill(e)
}

func (fv *FV) switchStmt(e *Env, s *ast.SwitchStmt, label string) {
	if s.Init != nil {
		fv.stmt(e, s.Init, "")
	}
	var tag *Value
	var tagT types.Type
	if s.Tag != nil {
		v := fv.expr(e, s.Tag)
		tag = &v
		tagT = fv.typeOf(s.Tag)
	}
	fr := &jumpFrame{label: label}
	fv.frames = append(fv.frames, fr)
	var outs []*Env
	rest := e.clone() // env in which no earlier case matched
	var defaultClause *ast.CaseClause
	var pendingFall []*Env
	for _, c := range s.Body.List {
		cc := c.(*ast.CaseClause)
		if cc.List == nil {
			defaultClause = cc
			continue
		}
		var conds []Term
		for _, x := range cc.List {
			if tag != nil {
				v := fv.expr(rest, x)
				if isObjectType(tagT) {
					conds = append(conds, fv.objectEq(rest, tag.T, rest, v.T, tagT))
				} else if v.T.Sort == tag.T.Sort {
					conds = append(conds, eq(tag.T, v.T))
				} else {
					conds = append(conds, fv.s.freshConst("case", sBool))
				}
			} else {
				conds = append(conds, fv.expr(rest, x).T)
			}
		}
		c0 := or(conds...)
		body := fv.withCond(rest, c0)
		if len(pendingFall) > 0 {
			body = fv.mergeEnvs(append(pendingFall, body))
			pendingFall = nil
		}
		saveFT := fv.fallthroughs
		fv.fallthroughs = nil
		fv.block(body, cc.Body)
		pendingFall = fv.fallthroughs
		fv.fallthroughs = saveFT
		outs = append(outs, body)
		rest = fv.withCond(rest, not(c0))
	}
	if defaultClause != nil {
		body := rest
		if len(pendingFall) > 0 {
			body = fv.mergeEnvs(append(pendingFall, body))
		}
		fv.block(body, defaultClause.Body)
		outs = append(outs, body)
	} else {
		outs = append(outs, rest)
		outs = append(outs, pendingFall...)
	}
	fv.frames = fv.frames[:len(fv.frames)-1]
	outs = append(outs, fr.breaks...)
	*e = *fv.mergeEnvs(outs)
}

func (fv *FV) typeSwitch(e *Env, s *ast.TypeSwitchStmt, label string) {
	if s.Init != nil {
		fv.stmt(e, s.Init, "")
	}
	var subject ast.Expr
	var bindName *ast.Ident
	switch a := s.Assign.(type) {
	case *ast.ExprStmt:
		subject = a.X.(*ast.TypeAssertExpr).X
	case *ast.AssignStmt:
		subject = a.Rhs[0].(*ast.TypeAssertExpr).X
		bindName = a.Lhs[0].(*ast.Ident)
	}
	_ = bindName
	v := fv.expr(e, subject)
	fr := &jumpFrame{label: label}
	fv.frames = append(fv.frames, fr)
	var outs []*Env
	rest := e.clone()
	var defaultClause *ast.CaseClause
	for _, c := range s.Body.List {
		cc := c.(*ast.CaseClause)
		if cc.List == nil {
			defaultClause = cc
			continue
		}
		var conds []Term
		var single types.Type
		for _, x := range cc.List {
			tt := fv.typeOf(x)
			if id, ok := x.(*ast.Ident); ok && id.Name == "nil" {
				conds = append(conds, eq(v.T, tNull))
				continue
			}
			if tt == nil {
				conds = append(conds, fv.s.freshConst("tcase", sBool))
				continue
			}
			if _, isIface := tt.Underlying().(*types.Interface); isIface {
				c := fv.s.freshConst("implements", sBool)
				fv.s.assume(implies(c, not(eq(v.T, tNull))))
				conds = append(conds, c)
			} else {
				conds = append(conds, and(not(eq(v.T, tNull)), eq(fv.dynOf(v.T), fv.dynTag(tt))))
			}
			single = tt
		}
		c0 := or(conds...)
		body := fv.withCond(rest, c0)
		if obj := fv.info.Implicits[cc]; obj != nil {
			bv := v
			if len(cc.List) == 1 && single != nil {
				k, srt := sortOf(single)
				if k == kScalar && srt == sRef {
					bv = Value{K: kScalar, T: v.T, Type: single}
				} else {
					bv = fv.freshValue(single, obj.Name())
				}
			}
			body.vars[obj] = bv
		}
		fv.block(body, cc.Body)
		outs = append(outs, body)
		rest = fv.withCond(rest, not(c0))
	}
	if defaultClause != nil {
		if obj := fv.info.Implicits[defaultClause]; obj != nil {
			rest.vars[obj] = v
		}
		fv.block(rest, defaultClause.Body)
	}
	outs = append(outs, rest)
	fv.frames = fv.frames[:len(fv.frames)-1]
	outs = append(outs, fr.breaks...)
	*e = *fv.mergeEnvs(outs)
}

// ---------------------------------------------------------------------------
// Loops.

// assignedIn collects the local variables assigned in a statement and
// whether it may write the heap.
type writeSet struct {
	vars      map[types.Object]bool
	heapAll   bool
	heapComps map[string]bool
	compBases map[string]map[types.Object]bool // comps written only through these local bases
	compWide  map[string]bool                  // comps written through something else too
	compFresh map[string]bool                  // comps written by allocations only (append, make, new, literals)
	node      ast.Node                         // the statement(s) analysed
}

func (fv *FV) writesOf(n ast.Node) *writeSet {
	ws := &writeSet{vars: map[types.Object]bool{}, heapComps: map[string]bool{}, compBases: map[string]map[types.Object]bool{}, compWide: map[string]bool{}, compFresh: map[string]bool{}, node: n}
	addComps := func(cs []string, all bool) {
		if all {
			ws.heapAll = true
		}
		for _, c := range cs {
			ws.heapComps[c] = true
			ws.compWide[c] = true
		}
	}
	addBased := func(cs []string, all bool, base types.Object) {
		if all {
			ws.heapAll = true
		}
		for _, c := range cs {
			ws.heapComps[c] = true
			if ws.compBases[c] == nil {
				ws.compBases[c] = map[types.Object]bool{}
			}
			ws.compBases[c][base] = true
		}
	}
	// baseOf: x is `v[...]` or `v.f` with v a plain local variable
	baseOf := func(x ast.Expr) types.Object {
		var inner ast.Expr
		switch y := x.(type) {
		case *ast.IndexExpr:
			inner = y.X
			if bt := fv.typeOf(y.X); bt != nil {
				if _, isArr := bt.Underlying().(*types.Array); isArr {
					return nil
				}
			}
		case *ast.SelectorExpr:
			inner = y.X
			if sel, ok := fv.info.Selections[y]; !ok || len(sel.Index()) != 1 {
				return nil
			}
		default:
			return nil
		}
		id, ok := ast.Unparen(inner).(*ast.Ident)
		if !ok {
			return nil
		}
		o, ok := fv.info.ObjectOf(id).(*types.Var)
		if !ok || isPkgLevel(o) || fv.boxed[o] {
			return nil
		}
		if isObjectType(o.Type()) {
			if _, isSel := x.(*ast.SelectorExpr); !isSel {
				return nil
			}
		}
		return o
	}
	markLHS := func(x ast.Expr) {
		x = ast.Unparen(x)
		switch x := x.(type) {
		case *ast.Ident:
			if o := fv.info.ObjectOf(x); o != nil {
				if v, ok := o.(*types.Var); ok && isPkgLevel(v) {
					ws.heapAll = true
				} else {
					ws.vars[o] = true
					if fv.boxed[o] {
						addComps(cellComps(boxComp(o.Type()), o.Type()), false)
					}
					if isObjectType(o.Type()) {
						addComps(leafComps(o.Type()), false)
					}
				}
			}
		default:
			if ix, ok := x.(*ast.IndexExpr); ok {
				if id, ok := ast.Unparen(ix.X).(*ast.Ident); ok {
					if o := fv.info.ObjectOf(id); o != nil && fv.localMaps[o] {
						ws.vars[o] = true
						return
					}
				}
			}
			if b := baseOf(x); b != nil {
				cs, all := fv.lhsComps(x)
				addBased(cs, all, b)
			} else {
				addComps(fv.lhsComps(x))
			}
			// a write to an array-typed local's element assigns the local
			for {
				switch y := x.(type) {
				case *ast.IndexExpr:
					x = y.X
					continue
				case *ast.SelectorExpr:
					x = y.X
					continue
				case *ast.ParenExpr:
					x = y.X
					continue
				case *ast.StarExpr:
					x = y.X
					continue
				}
				break
			}
			if id, ok := x.(*ast.Ident); ok {
				if o := fv.info.ObjectOf(id); o != nil {
					if _, isArr := o.Type().Underlying().(*types.Array); isArr {
						ws.vars[o] = true
					}
				}
			}
		}
	}
	ast.Inspect(n, func(n ast.Node) bool {
		switch s := n.(type) {
		case *ast.AssignStmt:
			for _, l := range s.Lhs {
				markLHS(l)
			}
		case *ast.IncDecStmt:
			markLHS(s.X)
		case *ast.RangeStmt:
			if s.Key != nil {
				markLHS(s.Key)
			}
			if s.Value != nil {
				markLHS(s.Value)
			}
		case *ast.CallExpr:
			if id, ok := ast.Unparen(s.Fun).(*ast.Ident); ok && (id.Name == "append" || id.Name == "make" || id.Name == "new") {
				if _, isB := fv.info.Uses[id].(*types.Builtin); isB {
					cs, all := fv.callWriteComps(s)
					if all {
						ws.heapAll = true
					}
					for _, c := range cs {
						ws.heapComps[c] = true
						ws.compFresh[c] = true
					}
					return true
				}
			}
			if id, ok := ast.Unparen(s.Fun).(*ast.Ident); ok && id.Name == "delete" && len(s.Args) == 2 {
				if mid, ok := ast.Unparen(s.Args[0]).(*ast.Ident); ok {
					if o := fv.info.ObjectOf(mid); o != nil && fv.localMaps[o] {
						ws.vars[o] = true
						return true
					}
				}
			}
			addComps(fv.callWriteComps(s))
		case *ast.CompositeLit:
			if t := fv.typeOf(s); t != nil {
				markFresh := func(cs []string) {
					for _, c := range cs {
						ws.heapComps[c] = true
						ws.compFresh[c] = true
					}
				}
				switch u := deref(t).Underlying().(type) {
				case *types.Struct:
					markFresh(leafComps(deref(t)))
					return true
				case *types.Slice:
					if isObjectType(u.Elem()) {
						markFresh(leafComps(u.Elem()))
					} else {
						markFresh(cellComps("E$"+sanitize(elemKey(u.Elem())), u.Elem()))
					}
					return true
				}
				switch u := deref(t).Underlying().(type) {
				case *types.Struct:
					addComps(leafComps(deref(t)), false)
				case *types.Slice:
					if isObjectType(u.Elem()) {
						addComps(leafComps(u.Elem()), false)
					} else {
						addComps(cellComps("E$"+sanitize(elemKey(u.Elem())), u.Elem()), false)
					}
				case *types.Map:
					addComps(mapComps(u), false)
				}
			}
		case *ast.UnaryExpr:
			if s.Op == token.AND {
				// address taken: callee may write through it
				markLHS(s.X)
			}
			if s.Op == token.ARROW {
				ws.heapAll = true
			}
		case *ast.DeclStmt:
			if gd, ok := s.Decl.(*ast.GenDecl); ok {
				for _, sp := range gd.Specs {
					if vs, ok := sp.(*ast.ValueSpec); ok {
						for _, nm := range vs.Names {
							if o := fv.info.Defs[nm]; o != nil {
								ws.vars[o] = true
							}
						}
					}
				}
			}
		case *ast.GoStmt, *ast.SelectStmt, *ast.SendStmt:
			ws.heapAll = true
		}
		return true
	})
	return ws
}

func (fv *FV) havocAssigned(e *Env, n ast.Node) {
	ws := fv.writesOf(n)
	fv.havocWrites(e, ws)
}

func (fv *FV) havocWrites(e *Env, ws *writeSet) {
	for o := range ws.vars {
		if _, ok := e.vars[o]; ok {
			if fv.boxed[o] {
				continue
			}
			if isObjectType(o.Type()) {
				continue // object identity is stable; contents are heap
			}
			if cur := e.vars[o]; cur.K == kMap {
				e.vars[o] = fv.freshLocalMap(o.Type().Underlying().(*types.Map), o.Name())
				continue
			}
			if cur := e.vars[o]; cur.K == kSlice {
				if p, ok := e.private[cur.T.S]; ok && ws.node != nil && fv.onlyLocalSliceUses(ws.node, o) {
					// the loop only appends to / reads this local slice: at every iteration its
					// backing array is one this function allocated and never handed out
					nv := fv.freshValue(o.Type(), o.Name())
					e.private[nv.T.S] = privArr{ref: nv.T, comp: p.comp, sort: p.sort}
					fv.s.assume(implies(e.pc, or(eq(nv.T, tNull), not(sel(fv.entry.alloc, fv.rootOf(nv.T))))))
					e.vars[o] = nv
					continue
				}
			}
			e.vars[o] = fv.freshValue(o.Type(), o.Name())
		}
	}
	if ws.heapAll {
		fv.havocAll(e)
		return
	}
	for _, c := range sortedBoolKeys(ws.heapComps) {
		bases := ws.compBases[c]
		if strings.HasPrefix(c, "G$") {
			// package-level (ghost or real) variable: its value lives in the cell at null; no other cell exists
			if srt, ok := fv.compSort[c]; ok {
				_, inner := arrParts(srt)
				cur := fv.heapGet(e, c, srt)
				n := fv.s.freshConst(c, srt)
				fv.s.assume(eq(n, store(cur, tNull, fv.s.freshConst("hv", inner))))
				fv.heapSet(e, c, n)
				continue
			} else if v, ok2 := staticSorts.Load(c); ok2 {
				srt = v.(string)
				fv.compSort[c] = srt
				_, inner := arrParts(srt)
				cur := fv.heapGet(e, c, srt)
				n := fv.s.freshConst(c, srt)
				fv.s.assume(eq(n, store(cur, tNull, fv.s.freshConst("hv", inner))))
				fv.heapSet(e, c, n)
				continue
			}
		}
		if ws.compFresh[c] && !ws.compWide[c] {
			// written only at freshly allocated objects (and possibly through stable local bases):
			// every object allocated before the loop keeps its contents, except the bases
			fv.havocCompFresh(e, c, bases)
			continue
		}
		precise := !ws.compWide[c] && len(bases) > 0
		for b := range bases {
			if ws.vars[b] {
				precise = false // the base variable itself is reassigned in the loop
			}
			if _, ok := e.vars[b]; !ok {
				precise = false
			}
		}
		if !precise {
			fv.havocComp(e, c)
			continue
		}
		fv.havocCompAt(e, c, bases)
	}
	fv.havocAlloc(e)
}

// havocCompFresh forgets component c except at objects that were allocated
// before the loop (other than the given bases).
func (fv *FV) havocCompFresh(e *Env, c string, bases map[types.Object]bool) {
	srt, ok := fv.compSort[c]
	if !ok {
		v, ok2 := staticSorts.Load(c)
		if !ok2 {
			fv.havocComp(e, c)
			return
		}
		srt = v.(string)
		fv.compSort[c] = srt
	}
	cur := fv.heapGet(e, c, srt)
	n := fv.s.freshConst(c, srt)
	var excl []string
	for b := range bases {
		if v, ok := e.vars[b]; ok {
			excl = append(excl, fmt.Sprintf("(not (= r %s))", v.T.S))
		} else {
			fv.havocComp(e, c)
			return
		}
	}
	sort.Strings(excl)
	guard := fmt.Sprintf("(select %s (root r))", e.alloc.S)
	if len(excl) > 0 {
		guard = "(and " + guard + " " + strings.Join(excl, " ") + ")"
	}
	fv.s.assume(Term{fmt.Sprintf("(forall ((r Ref)) (! (=> %s (= (select %s r) (select %s r))) :pattern ((select %s r))))", guard, n.S, cur.S, n.S), sBool})
	fv.heapSet(e, c, n)
}

// havocCompAt forgets component c only at the objects held by the given local
// variables (the loop writes c through these bases only).
func (fv *FV) havocCompAt(e *Env, c string, bases map[types.Object]bool) {
	srt, ok := fv.compSort[c]
	if !ok {
		v, ok2 := staticSorts.Load(c)
		if !ok2 {
			fv.havocComp(e, c)
			return
		}
		srt = v.(string)
		fv.compSort[c] = srt
	}
	_, inner := arrParts(srt)
	cur := fv.heapGet(e, c, srt)
	var objs []types.Object
	for b := range bases {
		objs = append(objs, b)
	}
	sort.Slice(objs, func(i, j int) bool { return objs[i].Pos() < objs[j].Pos() })
	for _, b := range objs {
		cur = store(cur, e.vars[b].T, fv.s.freshConst("hv", inner))
	}
	n := fv.s.freshConst(c, srt)
	fv.s.assume(eq(n, cur))
	fv.heapSet(e, c, n)
}

// staticSorts remembers the SMT sort of statically named components so that a
// component can be havocked before its first dynamic use.
var staticSorts sync.Map

func regSort(comp string, idx []string, elem string) string {
	staticSorts.Store(comp, cellSort(idx, elem))
	return comp
}

var idxRef = []string{sRef}
var idxElem = []string{sRef, sInt}

// cellCompsN names the components holding a value of type t in family comp.
func cellCompsN(comp string, t types.Type, idx []string) []string {
	k, srt := sortOf(t)
	if k == kSlice {
		return []string{regSort(comp+"#arr", idx, sRef), regSort(comp+"#off", idx, sInt), regSort(comp+"#len", idx, sInt), regSort(comp+"#cap", idx, sInt)}
	}
	return []string{regSort(comp, idx, srt)}
}

func cellComps(comp string, t types.Type) []string {
	if strings.HasPrefix(comp, "E$") {
		return cellCompsN(comp, t, idxElem)
	}
	return cellCompsN(comp, t, idxRef)
}

// leafComps names every component that holds part of an object of type t.
func leafComps(t types.Type) []string {
	if isBigInt(t) {
		return []string{regSort("bigval", idxRef, sInt)}
	}
	if a, ok := objArray(t); ok {
		return leafComps(a.Elem())
	}
	st := structOf(t)
	if st == nil {
		return nil
	}
	var out []string
	for i := 0; i < st.NumFields(); i++ {
		f := st.Field(i)
		if isObjectType(f.Type()) {
			out = append(out, leafComps(f.Type())...)
			continue
		}
		out = append(out, cellCompsN(fieldComp(t, f), f.Type(), idxRef)...)
	}
	return out
}

func mapComps(mt *types.Map) []string {
	ks := mapKeySort(mt)
	idx := []string{sRef, ks}
	out := []string{regSort(mapDomComp(mt), idx, sBool), regSort("ML", idxRef, sInt)}
	if k, _ := sortOf(mt.Elem()); k == kSlice {
		return append(out, cellCompsN(mapValComp(mt), mt.Elem(), idx)...)
	}
	if isObjectType(mt.Elem()) {
		out = append(out, regSort(mapValComp(mt), idx, sRef))
		out = append(out, leafComps(mt.Elem())...)
		return out
	}
	out = append(out, regSort(mapValComp(mt), idx, elemSortOf(mt.Elem())))
	return out
}

// lhsComps: components written by an assignment to lvalue x (static).
func (fv *FV) lhsComps(x ast.Expr) ([]string, bool) {
	x = ast.Unparen(x)
	switch x := x.(type) {
	case *ast.SelectorExpr:
		sel, ok := fv.info.Selections[x]
		if !ok {
			return nil, true
		}
		if sel.Kind() != types.FieldVal {
			return nil, true
		}
		curT := sel.Recv()
		idx := sel.Index()
		for n, i := range idx {
			curT = deref(curT)
			st, ok := curT.Underlying().(*types.Struct)
			if !ok {
				return nil, true
			}
			f := st.Field(i)
			if n == len(idx)-1 {
				if isObjectType(f.Type()) {
					return leafComps(f.Type()), false
				}
				return cellComps(fieldComp(curT, f), f.Type()), false
			}
			curT = f.Type()
		}
	case *ast.IndexExpr:
		bt := fv.typeOf(x.X)
		if bt == nil {
			return nil, true
		}
		switch u := bt.Underlying().(type) {
		case *types.Slice:
			if isObjectType(u.Elem()) {
				return leafComps(u.Elem()), false
			}
			return cellComps("E$"+sanitize(elemKey(u.Elem())), u.Elem()), false
		case *types.Map:
			return mapComps(u), false
		case *types.Array:
			return fv.lhsComps(x.X)
		}
	case *ast.StarExpr:
		t := fv.typeOf(x)
		if t == nil {
			return nil, true
		}
		if isObjectType(t) {
			return leafComps(t), false
		}
		return cellComps(boxComp(t), t), false
	case *ast.Ident:
		if o, ok := fv.info.ObjectOf(x).(*types.Var); ok && !isPkgLevel(o) {
			if isObjectType(o.Type()) {
				return leafComps(o.Type()), false
			}
			if fv.boxed[o] {
				return cellComps(boxComp(o.Type()), o.Type()), false
			}
			return nil, false
		}
	}
	return nil, true
}

// callWriteComps: components a call may write (static over-approximation),
// including the ghost call counters (bump: classes) the call itself increments -
// also when the callee is pure or has an explicit `modifies` clause.
func (fv *FV) callWriteComps(x *ast.CallExpr) ([]string, bool) {
	cs, all := fv.callWriteComps0(x)
	if all {
		return nil, true
	}
	if fn, _, _ := fv.calleeOf(x); fn != nil {
		for _, b := range fv.eng.bumpsOf(fn) {
			if b.in != "" && (fv.u == nil || fv.u.Spec == nil || fv.u.Spec.Dir != b.in) {
				continue
			}
			cs = append(cs, regSort("G$"+sanitize(b.name), idxRef, sInt))
		}
	}
	return cs, false
}

func (fv *FV) callWriteComps0(x *ast.CallExpr) ([]string, bool) {
	if !fv.callMayWriteHeap(x) {
		return nil, false
	}
	if id, ok := ast.Unparen(x.Fun).(*ast.Ident); ok {
		if b, ok := fv.info.Uses[id].(*types.Builtin); ok {
			switch b.Name() {
			case "append", "make":
				t := fv.typeOf(x)
				if t == nil {
					return nil, true
				}
				switch u := t.Underlying().(type) {
				case *types.Slice:
					if isObjectType(u.Elem()) {
						return leafComps(u.Elem()), false
					}
					return cellComps("E$"+sanitize(elemKey(u.Elem())), u.Elem()), false
				case *types.Map:
					return mapComps(u), false
				}
				return nil, false
			case "delete":
				if mt, ok := fv.typeOf(x.Args[0]).Underlying().(*types.Map); ok {
					return mapComps(mt), false
				}
			case "new":
				t := fv.typeOf(x.Args[0])
				if isObjectType(t) {
					return leafComps(t), false
				}
				return cellComps(boxComp(t), t), false
			case "copy":
				if st, ok := fv.typeOf(x.Args[0]).Underlying().(*types.Slice); ok && !isObjectType(st.Elem()) {
					return cellComps("E$"+sanitize(elemKey(st.Elem())), st.Elem()), false
				}
			}
			return nil, true
		}
	}
	fn, _, isIface := fv.calleeOf(x)
	if fn != nil && strings.Contains(fn.FullName(), "storage/mkvs.KeyValueTree).") || fn != nil && strings.Contains(fn.FullName(), "storage/mkvs.ImmutableKeyValueTree).") {
		switch fn.Name() {
		case "Insert", "Remove", "RemoveExisting":
			return []string{regSort(kvDom, idxRef, arrSort(sInt, sBool)), regSort(kvVal, idxRef, arrSort(sInt, sInt)), regSort(kvWrites, idxRef, sInt), regSort(treeWritesComp(), idxRef, arrSort(sRef, sInt))}, false
		case "Get":
			return nil, false
		}
	}
	if fn == nil || (isIface && fv.eng.unitOf(fn) == nil) {
		return nil, true
	}
	if fn.Pkg() != nil && fn.Pkg().Path() == "math/big" {
		return []string{"bigval"}, false
	}
	switch fn.FullName() {
	case "fmt.Errorf", "errors.New":
		return nil, false
	}
	u := fv.eng.unitOf(fn)
	if u == nil || u.C == nil || !u.C.HasMod {
		return nil, true
	}
	var out []string
	for _, cl := range u.C.Modifies {
		if cl.Expr == nil {
			return nil, true
		}
		mx := ast.Unparen(cl.Expr)
		t := cl.Info.Types[mx].Type
		if t == nil {
			return nil, true
		}
		if call, ok := mx.(*ast.CallExpr); ok && len(call.Args) == 0 {
			if id := identOf(ast.Unparen(call.Fun)); id != nil && id.Name == "gh_kvState" {
				out = append(out, regSort(kvDom, idxRef, arrSort(sInt, sBool)), regSort(kvVal, idxRef, arrSort(sInt, sInt)), regSort(kvWrites, idxRef, sInt), regSort(treeWritesComp(), idxRef, arrSort(sRef, sInt)))
				continue
			}
		}
		if call, ok := mx.(*ast.CallExpr); ok && len(call.Args) == 1 {
			if id := identOf(ast.Unparen(call.Fun)); id != nil && id.Name == "gh_hdr" {
				if sx, ok := ast.Unparen(call.Args[0]).(*ast.SelectorExpr); ok {
					savedInfo := fv.info
					fv.info = cl.Info
					cs, all := fv.lhsComps(sx)
					fv.info = savedInfo
					if !all {
						out = append(out, cs...)
						continue
					}
				}
				return nil, true
			}
		}
		if call, ok := mx.(*ast.CallExpr); ok && len(call.Args) == 1 {
			if id := identOf(ast.Unparen(call.Fun)); id != nil && id.Name == "gh_anyOf" {
				mx = ast.Unparen(call.Args[0])
			}
		}
		// ghost variable
		if id := identOf(mx); id != nil {
			if v, ok := cl.Info.ObjectOf(id).(*types.Var); ok && fv.eng.ghostVars[v] {
				out = append(out, regSort("G$"+sanitize(shortQual(v.Pkg())+"."+v.Name()), idxRef, ghostSort(v.Type())))
				continue
			}
		}
		if isObjectType(deref(t)) {
			out = append(out, leafComps(deref(t))...)
			continue
		}
		switch ut := t.Underlying().(type) {
		case *types.Slice:
			if isObjectType(ut.Elem()) {
				out = append(out, leafComps(ut.Elem())...)
			} else {
				out = append(out, cellComps("E$"+sanitize(elemKey(ut.Elem())), ut.Elem())...)
			}
			switch hx := mx.(type) {
			case *ast.SelectorExpr:
				savedInfo := fv.info
				fv.info = cl.Info
				cs, all := fv.lhsComps(hx)
				fv.info = savedInfo
				if all {
					return nil, true
				}
				out = append(out, cs...)
			case *ast.StarExpr:
				return nil, true // header location unknown statically
			}
			continue
		case *types.Map:
			out = append(out, mapComps(ut)...)
			continue
		}
		// scalar field selector
		if sx, ok := mx.(*ast.SelectorExpr); ok {
			if sel, ok := cl.Info.Selections[sx]; ok && sel.Kind() == types.FieldVal {
				curT := sel.Recv()
				idx := sel.Index()
				okPath := true
				for n, i := range idx {
					curT = deref(curT)
					st, isS := curT.Underlying().(*types.Struct)
					if !isS {
						okPath = false
						break
					}
					f := st.Field(i)
					if n == len(idx)-1 {
						out = append(out, cellComps(fieldComp(curT, f), f.Type())...)
					}
					curT = f.Type()
				}
				if okPath {
					continue
				}
			}
		}
		return nil, true
	}
	return out, false
}

func (fv *FV) loopSpec(s ast.Stmt) (*LoopSpec, int) {
	ord := fv.loopOrd[s]
	if fv.u.C == nil {
		return nil, ord
	}
	return fv.u.C.Loops[ord], ord
}

func (fv *FV) checkInvariants(e *Env, ls *LoopSpec, ord int, phase string, at ast.Node) {
	if ls == nil || e.dead {
		return
	}
	for _, inv := range ls.Inv {
		t := fv.specTermO(e, inv, &specCtx{old: fv.entry})
		fv.obligeNamed(e, "inv-"+phase, fmt.Sprintf("loop%d.%s.%s", ord, inv.Label[len(fmt.Sprintf("loop%d.", ord)):], phase), at,
			fmt.Sprintf("loop %d invariant %q (%s)", ord, inv.Text, phase), t)
	}
}

func (fv *FV) assumeInvariants(e *Env, ls *LoopSpec) {
	if ls == nil || e.dead {
		return
	}
	for _, inv := range ls.Inv {
		t := fv.specTermA(e, inv, &specCtx{old: fv.entry})
		fv.assume(e, t)
	}
}

func (fv *FV) forStmt(e *Env, s *ast.ForStmt, label string) {
	if s.Init != nil {
		fv.stmt(e, s.Init, "")
	}
	ls, ord := fv.loopSpec(s)
	fv.checkInvariants(e, ls, ord, "entry", s)
	// everything the loop may write: body, post statement and condition (calls in
	// them write the heap as well); the init statement has already been executed
	ws := fv.writesOf(&ast.ForStmt{For: s.For, Cond: s.Cond, Post: s.Post, Body: s.Body})
	fv.havocWrites(e, ws)
	fv.assumeInvariants(e, ls)
	head := e.clone()
	var exit *Env
	body := head
	if s.Cond != nil {
		c := fv.expr(head, s.Cond).T
		exit = fv.withCond(head, not(c))
		body = fv.withCond(head, c)
	} else {
		exit = head.clone()
		fv.kill(exit)
	}
	fr := &jumpFrame{label: label, isLoop: true}
	fv.frames = append(fv.frames, fr)
	fv.block(body, s.Body.List)
	fv.frames = fv.frames[:len(fv.frames)-1]
	back := fv.mergeEnvs(append(fr.continues, body))
	if !back.dead && s.Post != nil {
		fv.stmt(back, s.Post, "")
	}
	fv.checkInvariants(back, ls, ord, "step", s)
	*e = *fv.mergeEnvs(append(fr.breaks, exit))
}

func (fv *FV) rangeStmt(e *Env, s *ast.RangeStmt, label string) {
	xt := fv.typeOf(s.X)
	ls, ord := fv.loopSpec(s)
	if xt == nil {
		fv.genericLoop(e, s, label)
		return
	}
	switch u := xt.Underlying().(type) {
	case *types.Slice, *types.Array, *types.Basic:
		var n Term
		var sl Value
		var elemT types.Type
		isInt := false
		switch u := u.(type) {
		case *types.Slice:
			sl = fv.expr(e, s.X)
			if sl.K != kSlice {
				fv.genericLoop(e, s, label)
				return
			}
			n = sl.Len
			elemT = u.Elem()
		case *types.Array:
			if s.Value != nil {
				sl = fv.arrayAsSlice(e, s.X, u)
			}
			n = intLit(u.Len())
			elemT = u.Elem()
		case *types.Basic:
			if u.Info()&types.IsInteger == 0 {
				fv.genericLoop(e, s, label)
				return
			}
			n = fv.expr(e, s.X).T
			isInt = true
		}
		// hidden index
		i0 := intLit(0)
		e.loopIdx = append(e.loopIdx, i0)
		fv.checkInvariants(e, ls, ord, "entry", s)
		ws := fv.writesOf(s.Body)
		fv.havocWrites(e, ws)
		i := fv.s.freshConst("i", sInt)
		fv.s.assume(and(le(intLit(0), i), le(i, n)))
		e.loopIdx[len(e.loopIdx)-1] = i
		fv.bindRangeVars(e, s, i, sl, elemT, isInt, true)
		fv.assumeInvariants(e, ls)
		head := e.clone()
		exit := fv.withCond(head, ge(i, n))
		body := fv.withCond(head, lt(i, n))
		fv.bindRangeVars(body, s, i, sl, elemT, isInt, false)
		fr := &jumpFrame{label: label, isLoop: true}
		fv.frames = append(fv.frames, fr)
		fv.block(body, s.Body.List)
		fv.frames = fv.frames[:len(fv.frames)-1]
		back := fv.mergeEnvs(append(fr.continues, body))
		if !back.dead {
			back.loopIdx[len(back.loopIdx)-1] = add(i, intLit(1))
			fv.bindRangeVars(back, s, add(i, intLit(1)), sl, elemT, isInt, true)
			fv.checkInvariants(back, ls, ord, "step", s)
		}
		out := fv.mergeEnvs(append(fr.breaks, exit))
		if len(out.loopIdx) > 0 {
			out.loopIdx = out.loopIdx[:len(out.loopIdx)-1]
		}
		*e = *out
		return
	case *types.Map:
		fv.rangeMap(e, s, u, label, ls, ord)
		return
	}
	fv.genericLoop(e, s, label)
}

// bindRangeVars sets key/value variables for iteration index i. With
// keyOnly, only the key variable is (re)bound (used where invariants mention it).
func (fv *FV) bindRangeVars(e *Env, s *ast.RangeStmt, i Term, sl Value, elemT types.Type, isInt, keyOnly bool) {
	set := func(x ast.Expr, v Value) {
		if x == nil {
			return
		}
		id, ok := x.(*ast.Ident)
		if ok && id.Name == "_" {
			return
		}
		if ok && s.Tok == token.DEFINE {
			if obj := fv.info.Defs[id]; obj != nil {
				fv.defineVar(e, obj.(*types.Var), v, false)
				return
			}
		}
		fv.storeLV(e, fv.lvalue(e, x), v)
	}
	if s.Key != nil {
		kt := fv.typeOf(s.Key)
		set(s.Key, Value{K: kScalar, T: i, Type: kt})
	}
	if keyOnly || s.Value == nil || isInt {
		return
	}
	pos := add(sl.Off, i)
	var v Value
	if isObjectType(elemT) {
		v = Value{K: kScalar, T: fv.elemAddr(elemT, sl.T, pos), Type: elemT}
	} else {
		v = fv.loadCell(e, "E$"+sanitize(elemKey(elemT)), elemT, "", sl.T, pos)
	}
	set(s.Value, v)
}

func (fv *FV) rangeMap(e *Env, s *ast.RangeStmt, mt *types.Map, label string, ls *LoopSpec, ord int) {
	_, isLocal := fv.localMapOf(e, s.X)
	var m Value
	if !isLocal {
		m = fv.expr(e, s.X)
	}
	ks := mapKeySort(mt)
	visSort := arrSort(ks, sBool)
	vis0 := Term{fmt.Sprintf("((as const %s) false)", visSort), visSort}
	e.visited = append(e.visited, vis0)
	e.loopIdx = append(e.loopIdx, intLit(0))
	fv.checkInvariants(e, ls, ord, "entry", s)
	ws := fv.writesOf(s.Body)
	fv.havocWrites(e, ws)
	vis := fv.s.freshConst("visited", visSort)
	cnt := fv.s.freshConst("iter", sInt)
	fv.s.assume(le(intLit(0), cnt))
	e.visited[len(e.visited)-1] = vis
	e.loopIdx[len(e.loopIdx)-1] = cnt
	fv.assumeInvariants(e, ls)
	head := e.clone()
	var dom Term
	if isLocal {
		lm, _ := fv.localMapOf(head, s.X)
		dom = lm.T
	} else {
		dom = fv.mapDom(head, m.T, mt)
	}
	// exit: every key currently in the map has been visited
	more := fv.s.freshConst("more", sBool)
	exit := fv.withCond(head, not(more))
	kq := "k!q"
	exitFact := Term{fmt.Sprintf("(forall ((%s %s)) (! (=> (select %s %s) (select %s %s)) :pattern ((select %s %s))))", kq, ks, dom.S, kq, vis.S, kq, vis.S, kq), sBool}
	fv.assume(exit, exitFact)
	// body: some unvisited key
	body := fv.withCond(head, more)
	k := fv.s.freshConst("k", ks)
	if s.Key != nil {
		if kt := fv.typeOf(s.Key); kt != nil {
			fv.s.assume(rangeFact(k, kt))
		}
	}
	fv.assume(body, and(sel(dom, k), not(sel(vis, k))))
	if !isLocal {
		fv.assume(body, not(eq(m.T, tNull))) // a nil map has no entries to iterate over
	}
	set := func(x ast.Expr, v Value) {
		if x == nil {
			return
		}
		id, ok := x.(*ast.Ident)
		if ok && id.Name == "_" {
			return
		}
		if ok && s.Tok == token.DEFINE {
			if obj := fv.info.Defs[id]; obj != nil {
				fv.defineVar(body, obj.(*types.Var), v, false)
				return
			}
		}
		fv.storeLV(body, fv.lvalue(body, x), v)
	}
	set(s.Key, Value{K: kScalar, T: k, Type: mt.Key()})
	if s.Value != nil {
		if isLocal {
			lm, _ := fv.localMapOf(body, s.X)
			v, _ := fv.localMapLoad(lm, mt, k)
			set(s.Value, v)
		} else {
			v, _ := fv.mapLoad(body, m, mt, Value{K: kScalar, T: k})
			set(s.Value, v)
		}
	}
	fr := &jumpFrame{label: label, isLoop: true}
	fv.frames = append(fv.frames, fr)
	fv.block(body, s.Body.List)
	fv.frames = fv.frames[:len(fv.frames)-1]
	back := fv.mergeEnvs(append(fr.continues, body))
	if !back.dead {
		back.visited[len(back.visited)-1] = store(vis, k, tTrue)
		back.loopIdx[len(back.loopIdx)-1] = add(cnt, intLit(1))
		fv.checkInvariants(back, ls, ord, "step", s)
	}
	out := fv.mergeEnvs(append(fr.breaks, exit))
	if len(out.visited) > 0 {
		out.visited = out.visited[:len(out.visited)-1]
		out.loopIdx = out.loopIdx[:len(out.loopIdx)-1]
	}
	*e = *out
}

// genericLoop handles ranges we do not model (channels, functions, strings):
// havoc everything the body assigns, run the body once from an arbitrary state.
func (fv *FV) genericLoop(e *Env, s *ast.RangeStmt, label string) {
	fv.expr(e, s.X)
	ls, ord := fv.loopSpec(s)
	fv.checkInvariants(e, ls, ord, "entry", s)
	ws := fv.writesOf(s)
	ws.heapAll = true
	fv.havocWrites(e, ws)
	fv.assumeInvariants(e, ls)
	head := e.clone()
	more := fv.s.freshConst("more", sBool)
	exit := fv.withCond(head, not(more))
	body := fv.withCond(head, more)
	for _, x := range []ast.Expr{s.Key, s.Value} {
		if x == nil {
			continue
		}
		if id, ok := x.(*ast.Ident); ok && id.Name != "_" {
			if obj := fv.info.Defs[id]; obj != nil {
				fv.defineVar(body, obj.(*types.Var), fv.freshValue(obj.Type(), id.Name), false)
			} else if obj := fv.info.Uses[id]; obj != nil {
				body.vars[obj] = fv.freshValue(obj.Type(), id.Name)
			}
		}
	}
	fr := &jumpFrame{label: label, isLoop: true}
	fv.frames = append(fv.frames, fr)
	fv.block(body, s.Body.List)
	fv.frames = fv.frames[:len(fv.frames)-1]
	back := fv.mergeEnvs(append(fr.continues, body))
	fv.checkInvariants(back, ls, ord, "step", s)
	*e = *fv.mergeEnvs(append(fr.breaks, exit))
}

// onlyLocalSliceUses reports whether every use of the local slice variable o
// inside n is one of: v = append(v, ...), len(v), cap(v), v[i] (read or write
// of an element), `range v`. Any other use may hand the backing array out.
func (fv *FV) onlyLocalSliceUses(n ast.Node, o types.Object) bool {
	ok := true
	var visit func(x ast.Node, parentOK bool)
	isO := func(x ast.Expr) bool {
		id, isId := ast.Unparen(x).(*ast.Ident)
		return isId && fv.info.ObjectOf(id) == o
	}
	ast.Inspect(n, func(x ast.Node) bool {
		if !ok || x == nil {
			return false
		}
		switch y := x.(type) {
		case *ast.FuncLit:
			ok = false
			return false
		case *ast.AssignStmt:
			// v = append(v, a, b): fine if the appended values do not mention v
			if len(y.Lhs) == 1 && len(y.Rhs) == 1 && isO(y.Lhs[0]) {
				if c, isCall := ast.Unparen(y.Rhs[0]).(*ast.CallExpr); isCall {
					if id, isId := ast.Unparen(c.Fun).(*ast.Ident); isId && id.Name == "append" && len(c.Args) >= 1 && isO(c.Args[0]) && !c.Ellipsis.IsValid() {
						for _, a := range c.Args[1:] {
							if mentions(fv, a, o) {
								ok = false
							}
						}
						return false
					}
				}
			}
		case *ast.CallExpr:
			if id, isId := ast.Unparen(y.Fun).(*ast.Ident); isId && (id.Name == "len" || id.Name == "cap") && len(y.Args) == 1 && isO(y.Args[0]) {
				return false
			}
		case *ast.IndexExpr:
			if isO(y.X) {
				if mentions(fv, y.Index, o) {
					ok = false
				}
				return false
			}
		case *ast.RangeStmt:
			if isO(y.X) {
				// the body is still inspected
				if y.Key != nil && mentions(fv, y.Key, o) || y.Value != nil && mentions(fv, y.Value, o) {
					ok = false
				}
				if y.Body != nil {
					if !fv.onlyLocalSliceUses(y.Body, o) {
						ok = false
					}
				}
				return false
			}
		case *ast.Ident:
			if fv.info.ObjectOf(y) == o {
				ok = false // any other mention
			}
		}
		return true
	})
	_ = visit
	return ok
}

func mentions(fv *FV, x ast.Node, o types.Object) bool {
	found := false
	ast.Inspect(x, func(n ast.Node) bool {
		if id, ok := n.(*ast.Ident); ok && fv.info.ObjectOf(id) == o {
			found = true
		}
		return !found
	})
	return found
}
