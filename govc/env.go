package main

// Symbolic state: variables, heap components, path condition.

import (
	"fmt"
	"go/types"
	"sort"
	"strings"
)

type vkind int

const (
	kScalar vkind = iota
	kSlice
	kTuple
	kMap // owned local map: T = domain array, Off = value array, Len = size
)

// Value is the symbolic value of a Go expression.
type Value struct {
	K     vkind
	T     Term // scalar term; for slices the backing-array Ref
	Off   Term // slices: offset into the backing array
	Len   Term // slices: length
	Cap   Term // slices: capacity
	Tuple []Value
	Type  types.Type // static Go type when known (may be nil)
	Inner Term // slices: content array override (views of byte-array values in contract expressions)
	ArgType types.Type // static type of the argument expression when bound to an interface-typed parameter
}

func scalar(t Term) Value { return Value{K: kScalar, T: t} }

type Env struct {
	vars  map[types.Object]Value
	heap  map[string]Term // component -> current array term
	epoch int             // components missing from heap are at this epoch
	alloc Term
	pc    Term
	dead  bool
	// ghost per-iteration state of enclosing loops (innermost last)
	loopIdx []Term
	visited []Term
	// private: backing arrays (of scalar elements) allocated by the function being
	// verified whose reference has not left its local variables yet - no callee
	// can reach them, so their contents survive a whole-heap havoc
	private map[string]privArr
	// late: locals of nested blocks that are bound on some of the joined paths
	// only. The code being verified cannot name them any more (their scope has
	// ended), but contract clauses over locals can: `defined(x)` is the
	// condition under which the path went through x's declaration.
	late map[types.Object]lateVar
}

type lateVar struct {
	val  Value
	defd Term
}

type privArr struct {
	ref  Term
	comp string
	sort string
}

func (e *Env) clone() *Env {
	n := &Env{vars: make(map[types.Object]Value, len(e.vars)), heap: make(map[string]Term, len(e.heap)),
		epoch: e.epoch, alloc: e.alloc, pc: e.pc, dead: e.dead}
	for k, v := range e.vars {
		n.vars[k] = v
	}
	for k, v := range e.heap {
		n.heap[k] = v
	}
	n.loopIdx = append([]Term(nil), e.loopIdx...)
	n.visited = append([]Term(nil), e.visited...)
	if len(e.late) > 0 {
		n.late = make(map[types.Object]lateVar, len(e.late))
		for k, v := range e.late {
			n.late[k] = v
		}
	}
	if len(e.private) > 0 {
		n.private = make(map[string]privArr, len(e.private))
		for k, v := range e.private {
			n.private[k] = v
		}
	}
	return n
}

type epochDef struct {
	pcs    []Term
	epochs []int
}

// heapGet returns the current array term of a heap component.
func (fv *FV) heapGet(e *Env, comp, sort string) Term {
	if t, ok := e.heap[comp]; ok {
		return t
	}
	return fv.epochConst(comp, sort, e.epoch)
}

func (fv *FV) epochConst(comp, sort string, epoch int) Term {
	name := fmt.Sprintf("%s@%d", sanitize(comp), epoch)
	if _, ok := fv.s.decls[name]; ok {
		return Term{name, sort}
	}
	fv.compSort[comp] = sort
	t := fv.s.declConst(name, sort)
	if def, ok := fv.epochDefs[epoch]; ok {
		for i, pc := range def.pcs {
			src := fv.epochConst(comp, sort, def.epochs[i])
			fv.s.assume(implies(pc, eq(t, src)))
		}
	}
	return t
}

func (fv *FV) heapSet(e *Env, comp string, v Term) {
	fv.compSort[comp] = v.Sort
	e.heap[comp] = v
}

// havocAll forgets everything about the heap (a call into unknown code).
func (fv *FV) havocAll(e *Env) {
	if fv.curCall != "" {
		fv.note("whole heap havocked at %s", fv.curCall)
	}
	// Ghost call counters (bump: class) count calls made by the code under
	// contract itself; code outside the module and interface-dispatched callees
	// cannot make such calls, so the counters survive their havoc.
	keep := map[string]Term{}
	mono := map[string]Term{} // counters that may have been bumped: they only grow
	for _, b := range fv.eng.bumpRe {
		comp := "G$" + sanitize(b.name)
		_, used := fv.compSort[comp]
		if !used && !fv.contractMentions(b.name) {
			continue // a counter this function neither bumps, reads nor names: nothing to carry across the havoc
		}
		if fv.keepCounters != nil && !fv.keepCounters[bumpAll] && !fv.keepCounters[b.name] {
			keep[comp] = fv.heapGet(e, comp, arrSort(sRef, sInt))
		} else if used || fv.contractMentions(b.name) {
			mono[comp] = fv.heapGet(e, comp, arrSort(sRef, sInt))
		}
	}
	type kept struct {
		p   privArr
		old Term
	}
	var priv []kept
	for _, k := range sortedKeys(e.private) {
		p := e.private[k]
		priv = append(priv, kept{p, sel(fv.heapGet(e, p.comp, p.sort), p.ref)})
	}
	fv.nextEpoch++
	e.epoch = fv.nextEpoch
	e.heap = map[string]Term{}
	for c, t := range keep {
		fv.heapSet(e, c, t)
	}
	for _, k := range priv {
		// contents of a private array are out of every callee's reach
		fv.s.assume(implies(e.pc, eq(sel(fv.heapGet(e, k.p.comp, k.p.sort), k.p.ref), k.old)))
	}
	for _, c := range sortedKeys(mono) {
		old := mono[c]
		n := fv.s.freshConst(c, arrSort(sRef, sInt))
		fv.s.assume(implies(e.pc, le(sel(old, tNull), sel(n, tNull))))
		fv.heapSet(e, c, n)
	}
	fv.havocAlloc(e)
}

func (fv *FV) havocAlloc(e *Env) {
	old := e.alloc
	n := fv.s.freshConst("alloc", arrSort(sRef, sBool))
	fv.s.assume(Term{fmt.Sprintf("(forall ((r Ref)) (! (=> (select %s r) (select %s r)) :pattern ((select %s r)) :pattern ((select %s r))))", old.S, n.S, n.S, old.S), sBool})
	e.alloc = n
}

func (fv *FV) havocComp(e *Env, comp string) {
	s, ok := fv.compSort[comp]
	if !ok {
		v, ok2 := staticSorts.Load(comp)
		if !ok2 {
			fv.note("component %s of unknown sort could not be havocked precisely: heap havocked", comp)
			fv.havocAll(e)
			return
		}
		s = v.(string)
		fv.compSort[comp] = s
	}
	e.heap[comp] = fv.s.freshConst(comp, s)
}

// mergeEnvs joins control-flow paths.
func (fv *FV) mergeEnvs(envs []*Env) *Env {
	var live []*Env
	for _, e := range envs {
		if e != nil && !e.dead && e.pc.S != "false" {
			live = append(live, e)
		}
	}
	if len(live) == 0 {
		d := &Env{vars: map[types.Object]Value{}, heap: map[string]Term{}, pc: tFalse, dead: true, alloc: fv.entry.alloc}
		return d
	}
	if len(live) == 1 {
		return live[0]
	}
	m := live[0].clone()
	for k := range m.private {
		for _, o := range live[1:] {
			if _, ok := o.private[k]; !ok {
				delete(m.private, k)
				break
			}
		}
	}
	var pcs []Term
	for _, e := range live {
		pcs = append(pcs, e.pc)
	}
	m.pc = fv.namePC(or(pcs...))
	mergeTerm := func(name string, ts []Term) Term {
		same := true
		for _, t := range ts[1:] {
			if t.S != ts[0].S {
				same = false
			}
		}
		if same {
			return ts[0]
		}
		if len(ts) == 2 && !strings.HasPrefix(ts[0].Sort, "(Array") {
			n := fv.s.freshConst(name, ts[0].Sort)
			fv.s.assume(eq(n, ite(pcs[0], ts[0], ts[1])))
			return n
		}
		n := fv.s.freshConst(name, ts[0].Sort)
		for i, t := range ts {
			fv.s.assume(implies(pcs[i], eq(n, t)))
		}
		return n
	}
	// variables bound on some of the joined paths only: kept aside for the
	// contract clauses over locals
	{
		cand := map[types.Object]bool{}
		for _, e := range live {
			for o := range e.vars {
				cand[o] = true
			}
			for o := range e.late {
				cand[o] = true
			}
		}
		var late []types.Object
		for o := range cand {
			inAll := true
			for _, e := range live {
				if _, ok := e.vars[o]; !ok {
					inAll = false
					break
				}
			}
			if !inAll {
				late = append(late, o)
			}
		}
		sort.Slice(late, func(i, j int) bool { return late[i].Pos() < late[j].Pos() })
		m.late = nil
		for _, o := range late {
			var vals []Value
			var conds, defs []Term
			for i, e := range live {
				if v, ok := e.vars[o]; ok {
					vals, conds, defs = append(vals, v), append(conds, pcs[i]), append(defs, pcs[i])
				} else if lv, ok := e.late[o]; ok {
					vals, conds, defs = append(vals, lv.val), append(conds, pcs[i]), append(defs, and(pcs[i], lv.defd))
				}
			}
			if len(vals) == 0 {
				continue
			}
			nv, ok := fv.joinValues(o.Name(), vals, conds)
			if !ok {
				continue
			}
			if m.late == nil {
				m.late = map[types.Object]lateVar{}
			}
			m.late[o] = lateVar{val: nv, defd: fv.namePC(or(defs...))}
		}
	}
	// variables present in all live envs
	var objs []types.Object
	for o := range live[0].vars {
		inAll := true
		for _, e := range live[1:] {
			if _, ok := e.vars[o]; !ok {
				inAll = false
				break
			}
		}
		if inAll {
			objs = append(objs, o)
		} else {
			delete(m.vars, o)
		}
	}
	sort.Slice(objs, func(i, j int) bool { return objs[i].Pos() < objs[j].Pos() })
	for _, o := range objs {
		v0 := live[0].vars[o]
		switch v0.K {
		case kScalar:
			ts := make([]Term, len(live))
			for i, e := range live {
				ts[i] = e.vars[o].T
			}
			nv := v0
			nv.T = mergeTerm(o.Name(), ts)
			m.vars[o] = nv
		case kMap:
			a, b, c := make([]Term, len(live)), make([]Term, len(live)), make([]Term, len(live))
			okAll := true
			for i, e := range live {
				v := e.vars[o]
				if v.K != kMap {
					okAll = false
					break
				}
				a[i], b[i], c[i] = v.T, v.Off, v.Len
			}
			if !okAll {
				delete(m.vars, o)
				continue
			}
			nv := v0
			nv.T, nv.Off, nv.Len = mergeTerm(o.Name()+".dom", a), mergeTerm(o.Name()+".val", b), mergeTerm(o.Name()+".len", c)
			m.vars[o] = nv
		case kSlice:
			a, b, c, d := make([]Term, len(live)), make([]Term, len(live)), make([]Term, len(live)), make([]Term, len(live))
			for i, e := range live {
				v := e.vars[o]
				a[i], b[i], c[i], d[i] = v.T, v.Off, v.Len, v.Cap
			}
			nv := v0
			nv.T, nv.Off, nv.Len, nv.Cap = mergeTerm(o.Name()+".arr", a), mergeTerm(o.Name()+".off", b), mergeTerm(o.Name()+".len", c), mergeTerm(o.Name()+".cap", d)
			m.vars[o] = nv
		}
	}
	// heap
	sameEpoch := true
	for _, e := range live[1:] {
		if e.epoch != live[0].epoch {
			sameEpoch = false
		}
	}
	comps := map[string]bool{}
	for _, e := range live {
		for c := range e.heap {
			comps[c] = true
		}
	}
	if !sameEpoch {
		for c := range fv.compSort {
			comps[c] = true
		}
		fv.nextEpoch++
		m.epoch = fv.nextEpoch
		def := epochDef{}
		for _, e := range live {
			def.pcs = append(def.pcs, e.pc)
			def.epochs = append(def.epochs, e.epoch)
		}
		fv.epochDefs[m.epoch] = def
	}
	m.heap = map[string]Term{}
	for _, c := range sortedBoolKeys(comps) {
		srt := fv.compSort[c]
		ts := make([]Term, len(live))
		for i, e := range live {
			ts[i] = fv.heapGet(e, c, srt)
		}
		m.heap[c] = mergeTerm(c, ts)
	}
	al := make([]Term, len(live))
	for i, e := range live {
		al[i] = e.alloc
	}
	m.alloc = mergeTerm("alloc", al)
	// loop ghost state: keep the first env's (they agree within a loop body)
	return m
}

// joinValues: a value equal to vals[i] under conds[i] (unconstrained when no
// condition holds). Scalars, slices and maps only.
func (fv *FV) joinValues(name string, vals []Value, conds []Term) (Value, bool) {
	k := vals[0].K
	for _, v := range vals {
		if v.K != k {
			return Value{}, false
		}
	}
	if k != kScalar && k != kSlice && k != kMap {
		return Value{}, false
	}
	if len(vals) == 1 {
		return vals[0], true
	}
	join := func(part string, get func(Value) Term) Term {
		first := get(vals[0])
		if first.S == "" {
			return first
		}
		same := true
		for _, v := range vals[1:] {
			if get(v).S != first.S {
				same = false
			}
		}
		if same {
			return first
		}
		n := fv.s.freshConst(name+part, first.Sort)
		for i, v := range vals {
			t := get(v)
			if t.S == "" || t.Sort != first.Sort {
				continue
			}
			fv.s.assume(implies(conds[i], eq(n, t)))
		}
		return n
	}
	nv := vals[0]
	nv.T = join("", func(v Value) Term { return v.T })
	nv.Off = join(".off", func(v Value) Term { return v.Off })
	nv.Len = join(".len", func(v Value) Term { return v.Len })
	nv.Cap = join(".cap", func(v Value) Term { return v.Cap })
	return nv, true
}

func sortedBoolKeys(m map[string]bool) []string {
	ks := make([]string, 0, len(m))
	for k := range m {
		ks = append(ks, k)
	}
	sort.Strings(ks)
	return ks
}

// namePC introduces a named boolean for a path condition to keep terms small.
func (fv *FV) namePC(t Term) Term {
	if len(t.S) < 40 {
		return t
	}
	n := fv.s.freshConst("pc", sBool)
	fv.s.assume(eq(n, t))
	return n
}

func (fv *FV) withCond(e *Env, c Term) *Env {
	n := e.clone()
	n.pc = fv.namePC(and(e.pc, c))
	if n.pc.S == "false" {
		n.dead = true
	}
	return n
}

// assume records a fact that holds on the current path.
func (fv *FV) assume(e *Env, t Term) {
	if e.dead || fv.spec != nil {
		return // contract expressions are pure: evaluating them never adds facts
	}
	fv.s.assume(implies(e.pc, t))
}

// contractMentions reports whether the contract of the function being verified
// names the ghost counter (by its unqualified name) in any clause.
func (fv *FV) contractMentions(counter string) bool {
	if fv.u == nil || fv.u.C == nil {
		return false
	}
	if fv.mentionMemo == nil {
		fv.mentionMemo = map[string]bool{}
	}
	if v, ok := fv.mentionMemo[counter]; ok {
		return v
	}
	short := counter
	if i := strings.LastIndex(counter, "."); i >= 0 {
		short = counter[i+1:]
	}
	c := fv.u.C
	found := false
	// ghost functions of the package whose body names the counter stand for it
	names := []string{short}
	if fv.u.Spec != nil {
		for _, g := range fv.u.Spec.Ghosts {
			if strings.Contains(g.Src, short) {
				names = append(names, g.Name+"(")
			}
		}
	}
	scan := func(cls []*Clause) {
		for _, cl := range cls {
			for _, n := range names {
				if strings.Contains(cl.Text, n) {
					found = true
				}
			}
		}
	}
	scan(c.Requires)
	scan(c.Ensures)
	scan(c.EnsuresTrusted)
	scan(c.EnsuresLocal)
	scan(c.Modifies)
	for _, pc := range c.PreCalls {
		scan([]*Clause{pc.Cl})
	}
	for _, pa := range c.PreAssigns {
		scan([]*Clause{pa.Cl})
	}
	if c.PanicsWhen != nil {
		scan([]*Clause{c.PanicsWhen})
	}
	for _, l := range c.Loops {
		scan(l.Inv)
	}
	fv.mentionMemo[counter] = found
	return found
}

// markPrivate records a backing array of scalar elements this function has just
// allocated (make / append / slice literal).
func (fv *FV) markPrivate(e *Env, r Term, elem types.Type) {
	if fv.noPrivate || e.dead || isObjectType(elem) {
		return
	}
	k, es := sortOf(elem)
	if k != kScalar || es == sStr {
		return
	}
	if e.private == nil {
		e.private = map[string]privArr{}
	}
	e.private[r.S] = privArr{ref: r, comp: "E$" + sanitize(elemKey(elem)), sort: cellSort([]string{sRef, sInt}, es)}
}

// escape: the value leaves the function's local variables (call argument,
// store into the heap): its backing array is no longer private.
func (fv *FV) escape(e *Env, v Value) {
	if len(e.private) == 0 {
		return
	}
	switch v.K {
	case kSlice:
		delete(e.private, v.T.S)
	case kTuple:
		for _, t := range v.Tuple {
			fv.escape(e, t)
		}
	}
}
