package main

// Loading of the real packages (with the ghost prelude supplied through an
// overlay), matching of contracts to functions, type-checking of contract
// expressions in the scope of the real code.

import (
	"bytes"
	"fmt"
	"go/ast"
	"go/parser"
	"go/token"
	"go/types"
	"os"
	"path/filepath"
	"regexp"
	"sort"
	"strings"
	"sync"

	"golang.org/x/tools/go/packages"
)

// repoGo is the Go module under verification; GOVC_REPO overrides it for the
// must-fail self-test, which runs on a scratch worktree.
var repoGo = func() string {
	if r := os.Getenv("GOVC_REPO"); r != "" {
		return filepath.Join(r, "go")
	}
	return "/repo/go"
}()

type ghostInfo struct {
	decl *ast.FuncDecl
	pkg  *packages.Package
}

type declInfo struct {
	decl *ast.FuncDecl
	pkg  *packages.Package
}

type Engine struct {
	fset     *token.FileSet
	pkgs     []*packages.Package
	byPath   map[string]*packages.Package
	specs    map[string]*PkgSpec // by package path
	specDirs map[string]*PkgSpec // by relative dir
	units    map[*types.Func]*FuncUnit
	decls    map[*types.Func]*declInfo
	ghosts   map[*types.Func]*ghostInfo
	ghostVars map[*types.Var]bool
	bumpMemo  map[*types.Func]map[string]bool
	declIndexed map[string]bool
	noEffectRe []*regexp.Regexp
	argsOnlyRe []*regexp.Regexp // callees that may only write through their arguments
	pureRe     []pureSpec        // callees that are deterministic functions of their arguments
	bumpRe     []pureSpec        // callees (args-only) each of whose calls increments a ghost counter (name = "<pkg dir>.<ghost var>")
	lemmaPos map[*Lemma]*declInfo
	typeTags map[string]int
	mu       sync.Mutex

	contractsDir string
	workDir      string
	parallel     int
	timeout      int
	maxVC        int
	keepSMT      bool
	replay       bool // replay candidate counterexamples on the real code
	reachNotes   bool // per-return reachability notes (verbose / thorough)
	crossCheck   bool // thorough: every discharged obligation is re-run on a second solver
	debug        bool
	oblFilter    string

	undecided []string // keyed functions/loops that no longer exist
	missing   []missingItem // functions / loops named by a contract that the code no longer has
	knownObl map[string]bool // obligations listed as known findings of the property being checked
	localClause string // label of the clause over locals being type-checked
	precallSites []token.Pos // positions of the calls the precall clause being checked guards
	broken    []string // engine-level problems (spec does not type-check, ...)
	mirrorSrc map[string]string
	warnings  []string
}

func newEngine() *Engine {
	return &Engine{byPath: map[string]*packages.Package{}, specs: map[string]*PkgSpec{}, specDirs: map[string]*PkgSpec{},
		units: map[*types.Func]*FuncUnit{}, decls: map[*types.Func]*declInfo{}, ghosts: map[*types.Func]*ghostInfo{},
		lemmaPos: map[*Lemma]*declInfo{}, ghostVars: map[*types.Var]bool{}, bumpMemo: map[*types.Func]map[string]bool{}, declIndexed: map[string]bool{}, typeTags: map[string]int{}, parallel: 12, timeout: 10, maxVC: 4 << 20,
		mirrorSrc: map[string]string{}}
}

const contractFileName = "contracts_verif.go"
const preludeFileName = "zz_govc_prelude_verif.go"

// loadNoEffect reads the list of calls dropped by the extraction (events,
// logging, formatting): one regular expression on the full function name per line.
func (eng *Engine) loadNoEffect(path string) error {
	data, err := os.ReadFile(path)
	if err != nil {
		if os.IsNotExist(err) {
			return nil
		}
		return err
	}
	for _, line := range strings.Split(string(data), "\n") {
		line = strings.TrimSpace(line)
		if line == "" || strings.HasPrefix(line, "#") {
			continue
		}
		if strings.HasPrefix(line, "pure:") {
			// pure:<name> <regex>
			f := strings.Fields(strings.TrimPrefix(line, "pure:"))
			if len(f) != 2 {
				return fmt.Errorf("%s: malformed pure: line %q", path, line)
			}
			re, err := regexp.Compile(f[1])
			if err != nil {
				return fmt.Errorf("%s: %v", path, err)
			}
			eng.pureRe = append(eng.pureRe, pureSpec{name: f[0], re: re})
			continue
		}
		if strings.HasPrefix(line, "bump:") || strings.HasPrefix(line, "bumpok:") || strings.HasPrefix(line, "bumptrue:") {
			// bump:<pkg dir>.<ghost int var> <regex>: args-only callee whose every call is counted
			// bumpok: same, but only calls returning a nil error are counted
			onlyOK := strings.HasPrefix(line, "bumpok:")
			onlyTrue := strings.HasPrefix(line, "bumptrue:") // count only calls returning true
			f := strings.Fields(strings.TrimPrefix(strings.TrimPrefix(strings.TrimPrefix(line, "bumptrue:"), "bumpok:"), "bump:"))
			// optional third field in=<pkg dir>: only calls made by functions of that package are counted
			in := ""
			if len(f) == 3 && strings.HasPrefix(f[2], "in=") {
				in = strings.TrimPrefix(f[2], "in=")
				f = f[:2]
			}
			if len(f) != 2 {
				return fmt.Errorf("%s: malformed bump: line %q", path, line)
			}
			re, err := regexp.Compile(f[1])
			if err != nil {
				return fmt.Errorf("%s: %v", path, err)
			}
			eng.bumpRe = append(eng.bumpRe, pureSpec{name: f[0], re: re, onlyOK: onlyOK, onlyTrue: onlyTrue, in: in})
			if in == "" {
				eng.argsOnlyRe = append(eng.argsOnlyRe, re)
			}
			continue
		}
		argsOnly := false
		if strings.HasPrefix(line, "args:") {
			argsOnly = true
			line = strings.TrimSpace(strings.TrimPrefix(line, "args:"))
		}
		re, err := regexp.Compile(line)
		if err != nil {
			return fmt.Errorf("%s: %v", path, err)
		}
		if argsOnly {
			eng.argsOnlyRe = append(eng.argsOnlyRe, re)
		} else {
			eng.noEffectRe = append(eng.noEffectRe, re)
		}
	}
	return nil
}

// scanContracts parses every contract file under contractsDir.
func (eng *Engine) scanContracts() error {
	return filepath.Walk(eng.contractsDir, func(path string, fi os.FileInfo, err error) error {
		if err != nil || fi.IsDir() || fi.Name() != contractFileName {
			return err
		}
		rel, _ := filepath.Rel(eng.contractsDir, filepath.Dir(path))
		ps, err := parseSpecFile(path, rel)
		if err != nil {
			return err
		}
		eng.specDirs[rel] = ps
		return nil
	})
}

// overlay builds the go/packages overlay: ghost prelude per contract package
// and, where /repo lacks the contract file, the mirror copy.
func (eng *Engine) overlay() (map[string][]byte, error) {
	ov := map[string][]byte{}
	for rel, ps := range eng.specDirs {
		dir := filepath.Join(repoGo, rel)
		if _, err := os.Stat(dir); err != nil {
			eng.undecided = append(eng.undecided, "package directory missing: "+rel)
			continue
		}
		if ps.PkgName == "" {
			return nil, fmt.Errorf("%s: no package clause", ps.File)
		}
		mirror, err := os.ReadFile(ps.File)
		if err != nil {
			return nil, err
		}
		inRepo := filepath.Join(dir, contractFileName)
		if cur, err := os.ReadFile(inRepo); err == nil && !bytes.Equal(cur, mirror) {
			eng.warnings = append(eng.warnings, fmt.Sprintf("contract file %s differs from its mirror %s; the mirror is used", inRepo, ps.File))
		}
		ov[inRepo] = mirror
		ov[filepath.Join(dir, preludeFileName)] = []byte(preludeSrc(ps.PkgName, ps) + eng.lemmaStubs(ps))
	}
	return ov, nil
}

func ifaceStubName(key string) string { return "gh_im_" + strings.ReplaceAll(key, ".", "_") }

func (eng *Engine) lemmaStubs(ps *PkgSpec) string {
	var b strings.Builder
	for _, k := range ps.Order {
		if c := ps.Contracts[k]; c.Iface != "" {
			fmt.Fprintf(&b, "func %s%s {\n\tpanic(0)\n}\n", ifaceStubName(k), c.Iface)
		}
	}
	for _, l := range ps.Lemmas {
		fmt.Fprintf(&b, "func gh_lemma_%s(%s) {\n}\n", l.Name, l.Params)
	}
	return b.String()
}

func (eng *Engine) load(relDirs []string) error {
	ov, err := eng.overlay()
	if err != nil {
		return err
	}
	eng.fset = token.NewFileSet()
	cfg := &packages.Config{
		Mode: packages.NeedName | packages.NeedFiles | packages.NeedSyntax | packages.NeedTypes | packages.NeedTypesInfo |
			packages.NeedImports | packages.NeedDeps | packages.NeedTypesSizes,
		Dir: repoGo, Fset: eng.fset, BuildFlags: []string{"-tags=verif"}, Overlay: ov,
		Env: append(os.Environ(), "PATH=/opt/veriftools/go1.26.8/bin:"+os.Getenv("PATH"), "GOFLAGS=-mod=mod", "GOPROXY=off", "GOTOOLCHAIN=local"),
	}
	var pats []string
	for _, d := range relDirs {
		pats = append(pats, "./"+d)
	}
	pkgs, err := packages.Load(cfg, pats...)
	if err != nil {
		return err
	}
	eng.pkgs = pkgs
	var visit func(p *packages.Package)
	visit = func(p *packages.Package) {
		if _, ok := eng.byPath[p.PkgPath]; ok {
			return
		}
		eng.byPath[p.PkgPath] = p
		for _, q := range p.Imports {
			visit(q)
		}
	}
	for _, p := range pkgs {
		visit(p)
	}
	for _, p := range pkgs {
		for _, e := range p.Errors {
			eng.broken = append(eng.broken, "load error: "+e.Error())
		}
	}
	// attach specs
	for rel, ps := range eng.specDirs {
		path := modPrefix + rel
		p := eng.byPath[path]
		if p == nil {
			continue // not in the dependency closure of this run
		}
		if len(p.Errors) > 0 {
			for _, e := range p.Errors {
				eng.broken = append(eng.broken, "load error in "+rel+": "+e.Error())
			}
		}
		eng.specs[path] = ps
		eng.indexPackage(p, ps)
	}
	return nil
}

func (eng *Engine) indexPackage(p *packages.Package, ps *PkgSpec) {
	ghostNames := map[string]bool{}
	for _, g := range ps.Ghosts {
		ghostNames[g.Name] = true
	}
	lemmaByName := map[string]*Lemma{}
	for _, l := range ps.Lemmas {
		lemmaByName["gh_lemma_"+l.Name] = l
	}
	for _, g := range ps.GhostVars {
		if v, ok := p.Types.Scope().Lookup(g.Name).(*types.Var); ok {
			eng.ghostVars[v] = true
		}
	}
	byKey := map[string]*FuncUnit{}
	for _, f := range p.Syntax {
		for _, d := range f.Decls {
			fd, ok := d.(*ast.FuncDecl)
			if !ok {
				continue
			}
			fn, _ := p.TypesInfo.Defs[fd.Name].(*types.Func)
			if fn == nil {
				continue
			}
			eng.decls[fn] = &declInfo{fd, p}
			if ghostNames[fd.Name.Name] && fd.Recv == nil {
				eng.ghosts[fn] = &ghostInfo{fd, p}
				continue
			}
			if l, ok := lemmaByName[fd.Name.Name]; ok {
				eng.lemmaPos[l] = &declInfo{fd, p}
				continue
			}
			if fd.Body == nil {
				continue
			}
			u := &FuncUnit{Fn: fn, Decl: fd, Pkg: p, Spec: ps}
			byKey[u.Key()] = u
		}
	}
	for _, key := range ps.Order {
		c := ps.Contracts[key]
		u := byKey[key]
		if u == nil && c.InitVar != "" {
			u = eng.initUnit(p, ps, key, c)
			if u == nil {
				continue
			}
		}
		if u == nil && c.Iface != "" {
			u = eng.ifaceUnit(p, ps, key, c)
			if u == nil {
				continue
			}
		}
		if u == nil {
			eng.missing = append(eng.missing, missingItem{name: ps.Dir + "." + key + "#exists", props: c.Props, pos: fmt.Sprintf("%s:%d", c.File, c.Line),
				desc: fmt.Sprintf("function %s, which the contract at %s:%d is about, exists in package %s", key, filepath.Base(filepath.Dir(c.File))+"/"+filepath.Base(c.File), c.Line, ps.Dir)})
			continue
		}
		u.C = c
		eng.units[u.Fn] = u
		eng.checkContract(u)
	}
	// package-level global clauses are checked inside the prelude file (its imports are in scope)
	var preludePos token.Pos
	for _, f := range p.Syntax {
		if strings.HasSuffix(eng.fset.Position(f.Pos()).Filename, preludeFileName) {
			for _, d := range f.Decls {
				if fd, ok := d.(*ast.FuncDecl); ok && fd.Name.Name == "gh_old" {
					preludePos = fd.Body.Lbrace + 1
				}
			}
		}
	}
	for _, g := range ps.Globals {
		eng.checkClause(p, g, preludePos, nil, false)
	}
	for _, l := range ps.Lemmas {
		di := eng.lemmaPos[l]
		if di == nil {
			eng.broken = append(eng.broken, "lemma stub missing: "+l.Name)
			continue
		}
		for _, cl := range append(append([]*Clause{}, l.Requires...), l.Ensures...) {
			eng.checkClause(p, cl, di.decl.Body.Lbrace+1, nil, false)
		}
	}
}

var resultRe = regexp.MustCompile(`\bresult(\d*)\b`)
var undefinedRe = regexp.MustCompile(`undefined: ([A-Za-z_][A-Za-z0-9_]*)$`)

// initUnit builds the unit of a contract on the initializer of a package-level
// variable: a synthetic function whose body is `Var = <initializer>`; the
// ensures clauses are checked after it.
func (eng *Engine) initUnit(p *packages.Package, ps *PkgSpec, key string, c *Contract) *FuncUnit {
	for _, f := range p.Syntax {
		for _, d := range f.Decls {
			gd, ok := d.(*ast.GenDecl)
			if !ok || gd.Tok != token.VAR {
				continue
			}
			for _, sp := range gd.Specs {
				vs, ok := sp.(*ast.ValueSpec)
				if !ok {
					continue
				}
				for i, nm := range vs.Names {
					if nm.Name != c.InitVar {
						continue
					}
					if len(vs.Values) != len(vs.Names) {
						eng.missing = append(eng.missing, missingItem{name: ps.Dir + "." + key + "#exists", props: c.Props, pos: eng.fset.Position(vs.Pos()).String(),
							desc: fmt.Sprintf("package variable %s has an initializer of its own (the contract at %s:%d is about it)", c.InitVar, filepath.Base(c.File), c.Line)})
						return nil
					}
					lhs := &ast.Ident{Name: nm.Name, NamePos: vs.Values[i].Pos()}
					// the assignment target must resolve to the package variable
					p.TypesInfo.Uses[lhs] = p.TypesInfo.Defs[nm]
					if tv, ok := p.TypesInfo.Types[vs.Values[i]]; ok {
						p.TypesInfo.Types[lhs] = types.TypeAndValue{Type: tv.Type}
					}
					assign := &ast.AssignStmt{Lhs: []ast.Expr{lhs}, TokPos: vs.Values[i].Pos(), Tok: token.ASSIGN, Rhs: []ast.Expr{vs.Values[i]}}
					body := &ast.BlockStmt{Lbrace: vs.Values[i].Pos(), List: []ast.Stmt{assign}, Rbrace: vs.Values[i].End()}
					decl := &ast.FuncDecl{Name: &ast.Ident{Name: "init$" + nm.Name, NamePos: vs.Pos()},
						Type: &ast.FuncType{Func: vs.Pos(), Params: &ast.FieldList{}}, Body: body}
					fn := types.NewFunc(vs.Pos(), p.Types, "init$"+nm.Name, types.NewSignatureType(nil, nil, nil, nil, nil, false))
					return &FuncUnit{Fn: fn, Decl: decl, Pkg: p, Spec: ps, ifaceKey: key}
				}
			}
		}
	}
	return nil
}

// ifaceUnit builds the unit of a contract on an interface method: the clauses
// are type-checked in the scope of a generated stub (receiver first), the
// callee is the interface method itself.
func (eng *Engine) ifaceUnit(p *packages.Package, ps *PkgSpec, key string, c *Contract) *FuncUnit {
	bad := func(f string, a ...any) *FuncUnit {
		eng.broken = append(eng.broken, fmt.Sprintf("%s:%d: %s", c.File, c.Line, fmt.Sprintf(f, a...)))
		return nil
	}
	parts := strings.SplitN(key, ".", 2)
	if len(parts) != 2 {
		return bad("iface contract key %q must be Interface.Method", key)
	}
	tn, _ := p.Types.Scope().Lookup(parts[0]).(*types.TypeName)
	if tn == nil {
		return bad("interface type %s not found", parts[0])
	}
	it, _ := tn.Type().Underlying().(*types.Interface)
	if it == nil {
		return bad("%s is not an interface type", parts[0])
	}
	var m *types.Func
	for i := 0; i < it.NumMethods(); i++ {
		if it.Method(i).Name() == parts[1] {
			m = it.Method(i)
		}
	}
	if m == nil {
		return bad("interface %s has no method %s", parts[0], parts[1])
	}
	var stubDecl *ast.FuncDecl
	var stubFn *types.Func
	for _, f := range p.Syntax {
		for _, d := range f.Decls {
			if fd, ok := d.(*ast.FuncDecl); ok && fd.Name.Name == ifaceStubName(key) {
				stubDecl = fd
				stubFn, _ = p.TypesInfo.Defs[fd.Name].(*types.Func)
			}
		}
	}
	if stubDecl == nil || stubFn == nil {
		return bad("stub for %s was not generated", key)
	}
	ss, ms := stubFn.Type().(*types.Signature), m.Type().(*types.Signature)
	if ss.Params().Len() != ms.Params().Len()+1 || ss.Results().Len() != ms.Results().Len() {
		return bad("iface signature of %s does not match the method (%s)", key, ms)
	}
	if !types.Identical(ss.Params().At(0).Type(), tn.Type()) {
		return bad("first parameter of the iface signature of %s must be the receiver, of type %s", key, parts[0])
	}
	for i := 0; i < ms.Params().Len(); i++ {
		if !types.Identical(ss.Params().At(i+1).Type(), ms.Params().At(i).Type()) {
			return bad("parameter %d of the iface signature of %s has type %s, the method has %s", i+1, key, ss.Params().At(i+1).Type(), ms.Params().At(i).Type())
		}
	}
	for i := 0; i < ms.Results().Len(); i++ {
		if !types.Identical(ss.Results().At(i).Type(), ms.Results().At(i).Type()) {
			return bad("result %d of the iface signature of %s has type %s, the method has %s", i, key, ss.Results().At(i).Type(), ms.Results().At(i).Type())
		}
	}
	return &FuncUnit{Fn: m, Decl: stubDecl, Pkg: p, Spec: ps, stubSig: ss, ifaceKey: key}
}

// checkContract type-checks all clauses of a contract in the scope of the
// real function.
func (eng *Engine) checkContract(u *FuncUnit) {
	pos := u.Decl.Body.Lbrace + 1
	sig := u.Fn.Type().(*types.Signature)
	if u.stubSig != nil {
		sig = u.stubSig
	}
	for _, cl := range u.C.Requires {
		eng.checkClause(u.Pkg, cl, pos, u, false)
	}
	for _, cl := range u.C.Assumes {
		eng.checkClause(u.Pkg, cl, pos, u, false)
	}
	for _, cl := range u.C.Modifies {
		eng.checkClause(u.Pkg, cl, pos, u, false)
	}
	for _, cl := range u.C.Ensures {
		eng.checkClause(u.Pkg, cl, pos, u, sig.Results().Len() > 0)
	}
	for _, cl := range u.C.Stable {
		eng.checkClause(u.Pkg, cl, pos, u, false)
	}
	for _, cl := range u.C.EnsuresTrusted {
		eng.checkClause(u.Pkg, cl, pos, u, sig.Results().Len() > 0)
	}
	for _, cl := range u.C.EnsuresLocal {
		eng.localClause = "post:" + cl.Label
		eng.checkClause(u.Pkg, cl, u.Decl.Body.Rbrace, u, sig.Results().Len() > 0)
		eng.localClause = ""
	}
	for _, cl := range u.C.Defines {
		eng.checkClause(u.Pkg, cl, pos, u, sig.Results().Len() > 0)
	}
	for _, pc := range u.C.PreCalls {
		eng.localClause = "precall:" + pc.Cl.Label
		eng.precallSites = eng.callSites(u, pc.Re)
		eng.checkClause(u.Pkg, pc.Cl, u.Decl.Body.Rbrace, u, false)
		eng.precallSites = nil
		eng.localClause = ""
	}
	if u.C.PanicsWhen != nil {
		eng.localClause = "panics:when"
		eng.checkClause(u.Pkg, u.C.PanicsWhen, u.Decl.Body.Rbrace, u, false)
		eng.localClause = ""
	}
	for _, pa := range u.C.PreAssigns {
		eng.localClause = "preassign:" + pa.Cl.Label
		eng.checkClause(u.Pkg, pa.Cl, u.Decl.Body.Rbrace, u, false)
		eng.localClause = ""
	}
	for n, cls := range u.C.ClosureEnsures {
		lit := nthFuncLit(u.Decl, n)
		if lit == nil {
			eng.broken = append(eng.broken, fmt.Sprintf("%s: %s has no function literal number %d", u.Spec.Dir, u.Name(), n))
			continue
		}
		for _, cl := range cls {
			eng.checkClause(u.Pkg, cl, lit.Body.Rbrace, u, false)
		}
	}
	for n, cl := range u.C.ClosureAccepts {
		lit := nthFuncLit(u.Decl, n)
		if lit == nil {
			eng.broken = append(eng.broken, fmt.Sprintf("%s:%d: %s has no function literal number %d", cl.File, cl.Line, u.Name(), n))
			continue
		}
		eng.checkClause(u.Pkg, cl, lit.Body.Rbrace, u, false)
	}
	// loops
	var loops []ast.Stmt
	ast.Inspect(u.Decl.Body, func(n ast.Node) bool {
		switch n.(type) {
		case *ast.ForStmt, *ast.RangeStmt:
			loops = append(loops, n.(ast.Stmt))
		}
		return true
	})
	ords := make([]int, 0, len(u.C.Loops))
	for n := range u.C.Loops {
		ords = append(ords, n)
	}
	sort.Ints(ords)
	for _, n := range ords {
		if n < 1 || n > len(loops) {
			eng.missing = append(eng.missing, missingItem{name: fmt.Sprintf("%s#loop%d#exists", u.Name(), n), props: u.C.Props, pos: eng.fset.Position(u.Decl.Pos()).String(),
				desc: fmt.Sprintf("loop %d of %s, for which the contract states an invariant, exists (the function has %d loops)", n, u.Key(), len(loops))})
			continue
		}
		var lpos token.Pos
		switch l := loops[n-1].(type) {
		case *ast.ForStmt:
			lpos = l.Body.Lbrace + 1
		case *ast.RangeStmt:
			lpos = l.Body.Lbrace + 1
		}
		for i, cl := range u.C.Loops[n].Inv {
			eng.localClause = fmt.Sprintf("loop%d.inv%d", n, i)
			eng.checkClause(u.Pkg, cl, lpos, u, false)
			eng.localClause = ""
		}
	}
}

func (eng *Engine) checkClause(p *packages.Package, cl *Clause, pos token.Pos, u *FuncUnit, withResults bool) {
	text := renameBuiltins(rewriteSpec(cl.Text))
	if withResults && u != nil {
		sig := u.Fn.Type().(*types.Signature)
		res := sig.Results()
		resTypes := u.Decl.Type.Results.List
		// flatten declared result type expressions
		var typeTexts []string
		var named bool
		for _, f := range resTypes {
			n := len(f.Names)
			if n == 0 {
				n = 1
			} else {
				named = true
			}
			for i := 0; i < n; i++ {
				typeTexts = append(typeTexts, types.ExprString(f.Type))
			}
		}
		if !named {
			text = resultRe.ReplaceAllStringFunc(text, func(m string) string {
				idx := 0
				if d := resultRe.FindStringSubmatch(m)[1]; d != "" {
					fmt.Sscanf(d, "%d", &idx)
				}
				if idx >= len(typeTexts) {
					return m
				}
				return fmt.Sprintf("gh_result[%s](%d)", typeTexts[idx], idx)
			})
			last := res.Len() - 1
			paramNamedErr := false
			for i := 0; i < sig.Params().Len(); i++ {
				if sig.Params().At(i).Name() == "err" {
					paramNamedErr = true
				}
			}
			if last >= 0 && !paramNamedErr && types.Identical(res.At(last).Type(), types.Universe.Lookup("error").Type()) {
				text = replaceIdent(text, "err", fmt.Sprintf("gh_result[error](%d)", last))
			}
		}
	}
	cl.Go = text
	var x ast.Expr
	var info *types.Info
	var err error
	for attempt := 0; ; attempt++ {
		x, err = parser.ParseExprFrom(eng.fset, fmt.Sprintf("%s:%d", cl.File, cl.Line), text, 0)
		if err != nil {
			eng.broken = append(eng.broken, fmt.Sprintf("%s:%d: cannot parse %q: %v", cl.File, cl.Line, text, err))
			return
		}
		info = &types.Info{Types: map[ast.Expr]types.TypeAndValue{}, Defs: map[*ast.Ident]types.Object{}, Uses: map[*ast.Ident]types.Object{},
			Selections: map[*ast.SelectorExpr]*types.Selection{}, Instances: map[*ast.Ident]types.Instance{}, Implicits: map[ast.Node]types.Object{},
			Scopes: map[ast.Node]*types.Scope{}}
		err = types.CheckExpr(eng.fset, p.Types, pos, x, info)
		if err == nil || attempt >= 8 || eng.localClause == "" || u == nil {
			break
		}
		// a clause over locals may name a variable of a nested block, provided the
		// function has exactly one variable of that name: it is referred to through
		// gh_local[T]("name")
		m := undefinedRe.FindStringSubmatch(err.Error())
		if m == nil || strings.HasPrefix(m[1], "gh_") {
			break
		}
		obj := eng.uniqueLocal(u, m[1])
		if obj == nil {
			break
		}
		ts := types.TypeString(obj.Type(), eng.fileQualifier(u))
		nt := replaceIdent(text, m[1], fmt.Sprintf("gh_local[%s](%q)", ts, m[1]))
		if nt == text {
			break
		}
		text = nt
		if cl.Locals == nil {
			cl.Locals = map[string]*types.Var{}
		}
		cl.Locals[m[1]] = obj
		cl.Go = text
	}
	if err != nil {
		if m := undefinedRe.FindStringSubmatch(err.Error()); m != nil && u != nil && !u.lemma && !strings.HasPrefix(m[1], "gh_") {
			if eng.localClause == "" {
				eng.localClause = cl.Label
				defer func() { eng.localClause = "" }()
			}
			if u.C != nil && u.C.Trusted && len(u.C.Props) > 0 {
				// trusted contracts are not verified, so nobody would report the clause: report it for the properties the contract serves
				cl.unstatable = true
				eng.missing = append(eng.missing, missingItem{name: u.Name() + "#" + eng.localClause + "#scope", props: u.C.Props, pos: fmt.Sprintf("%s:%d", cl.File, cl.Line),
					desc: fmt.Sprintf("trusted contract clause %q can be stated: it names %q, which %s does not define", cl.Text, m[1], u.Key())})
				return
			}
			// The clause names a local variable that the function does not have in
			// scope there (any more): the obligation can no longer be stated for this
			// code. It is reported as a failed obligation of that clause, not as a
			// broken specification.
			cl.unstatable = true
			u.unstatable = append(u.unstatable, unstatableClause{label: eng.localClause, text: cl.Text, name: m[1], file: cl.File, line: cl.Line})
			return
		}
		eng.broken = append(eng.broken, fmt.Sprintf("%s:%d: contract clause does not type-check: %q: %v", cl.File, cl.Line, text, err))
		return
	}
	cl.Expr, cl.Info = x, info
	if eng.localClause != "" && u != nil && !u.lemma && u.Decl != nil && u.Decl.Body != nil {
		// a name that resolves to a parameter or function-level variable while a
		// nested block declares another variable of the same name is ambiguous: the
		// clause author may have meant the inner one
		for id, obj := range info.Uses {
			v, ok := obj.(*types.Var)
			if !ok || v.IsField() || v.Pkg() != u.Pkg.Types || isPkgLevel(v) {
				continue
			}
			// only parameters are checked: `err`-style re-declarations of function-level
			// variables in inner blocks are conventional and mean the outer one here
			isParam := false
			if sg, ok := u.Fn.Type().(*types.Signature); ok {
				for i := 0; i < sg.Params().Len(); i++ {
					if sg.Params().At(i) == v {
						isParam = true
					}
				}
			}
			if !isParam {
				continue
			}
			n := 0
			for did, dobj := range u.Pkg.TypesInfo.Defs {
				if did.Name == id.Name && dobj != nil && dobj != obj && did.Pos() >= u.Decl.Body.Pos() && did.Pos() <= u.Decl.Body.End() {
					if dv, ok := dobj.(*types.Var); ok && !dv.IsField() {
						n++
					}
				}
			}
			if n > 0 {
				eng.broken = append(eng.broken, fmt.Sprintf("%s:%d: clause names %q, which is declared more than once in %s (parameter / outer variable and a nested block): ambiguous", cl.File, cl.Line, id.Name, u.Key()))
				break
			}
		}
	}
}

// uniqueLocal returns the only local variable named name declared anywhere in
// the body of u (nil if there is none or more than one).
func (eng *Engine) uniqueLocal(u *FuncUnit, name string) *types.Var {
	var all, inScope []*types.Var
	for id, obj := range u.Pkg.TypesInfo.Defs {
		if id.Name != name || obj == nil || id.Pos() < u.Decl.Body.Pos() || id.Pos() > u.Decl.Body.End() {
			continue
		}
		v, ok := obj.(*types.Var)
		if !ok || v.IsField() {
			continue
		}
		all = append(all, v)
		// a precall clause is evaluated at the guarded calls: among several variables
		// of the same name, the one whose scope contains all of them is meant
		if len(eng.precallSites) > 0 && v.Parent() != nil {
			in := true
			for _, p := range eng.precallSites {
				if !v.Parent().Contains(p) {
					in = false
				}
			}
			if in {
				inScope = append(inScope, v)
			}
		}
	}
	switch {
	case len(all) == 1:
		return all[0]
	case len(inScope) == 1:
		return inScope[0]
	}
	return nil
}

// callSites returns the positions of the calls in u whose callee matches re.
func (eng *Engine) callSites(u *FuncUnit, re *regexp.Regexp) []token.Pos {
	var out []token.Pos
	ast.Inspect(u.Decl.Body, func(n ast.Node) bool {
		c, ok := n.(*ast.CallExpr)
		if !ok {
			return true
		}
		var fn *types.Func
		switch f := ast.Unparen(c.Fun).(type) {
		case *ast.Ident:
			fn, _ = u.Pkg.TypesInfo.Uses[f].(*types.Func)
		case *ast.SelectorExpr:
			if sel, ok := u.Pkg.TypesInfo.Selections[f]; ok {
				fn, _ = sel.Obj().(*types.Func)
			} else {
				fn, _ = u.Pkg.TypesInfo.Uses[f.Sel].(*types.Func)
			}
		}
		if fn != nil && re.MatchString(fn.FullName()) {
			out = append(out, c.Pos())
		}
		return true
	})
	return out
}

// fileQualifier names packages the way the file declaring u imports them.
func (eng *Engine) fileQualifier(u *FuncUnit) types.Qualifier {
	names := map[string]string{}
	for _, f := range u.Pkg.Syntax {
		if f.Pos() <= u.Decl.Pos() && u.Decl.Pos() <= f.End() {
			for _, imp := range f.Imports {
				path := strings.Trim(imp.Path.Value, "\"")
				if imp.Name != nil {
					names[path] = imp.Name.Name
				} else if q := u.Pkg.Imports[path]; q != nil {
					names[path] = q.Name
				}
			}
		}
	}
	return func(p *types.Package) string {
		if p == u.Pkg.Types {
			return ""
		}
		if n, ok := names[p.Path()]; ok {
			return n
		}
		return p.Name()
	}
}

// replaceIdent replaces whole-word occurrences of id not preceded by '.'.
func replaceIdent(s, id, repl string) string {
	var b strings.Builder
	isW := func(c byte) bool { return c == '_' || c >= 'a' && c <= 'z' || c >= 'A' && c <= 'Z' || c >= '0' && c <= '9' }
	for i := 0; i < len(s); {
		if strings.HasPrefix(s[i:], id) && (i == 0 || (!isW(s[i-1]) && s[i-1] != '.')) && (i+len(id) == len(s) || !isW(s[i+len(id)])) {
			b.WriteString(repl)
			i += len(id)
			continue
		}
		b.WriteByte(s[i])
		i++
	}
	return b.String()
}

// missingItem: something a contract names that the loaded code does not have.
// It is reported as a failed obligation of every property the contract serves.
type missingItem struct {
	name, pos, desc string
	props           []string
}

type pureSpec struct {
	name   string
	re     *regexp.Regexp
	onlyOK bool // bumpok: count only calls returning a nil error
	onlyTrue bool // bumptrue: count only calls returning true
	in       string // count only calls made by functions of this package directory ("" = everywhere)
}

func (eng *Engine) ghostVarNamed(name string) bool {
	for v := range eng.ghostVars {
		if shortQual(v.Pkg())+"."+v.Name() == name {
			return true
		}
	}
	return false
}

// bumpsOf returns every counter class matching fn.
func (eng *Engine) bumpsOf(fn *types.Func) []pureSpec {
	if fn == nil {
		return nil
	}
	full := fn.FullName()
	var out []pureSpec
	for _, p := range eng.bumpRe {
		if p.re.MatchString(full) {
			out = append(out, p)
		}
	}
	return out
}

// bumpVar returns the ghost counter incremented by every call of fn, if any.
func (eng *Engine) bumpVar(fn *types.Func) (string, bool) {
	if fn == nil {
		return "", false
	}
	full := fn.FullName()
	for _, p := range eng.bumpRe {
		if p.re.MatchString(full) {
			return p.name, true
		}
	}
	return "", false
}

// pureName returns the uninterpreted-function name of a callee declared pure.
func (eng *Engine) pureName(fn *types.Func) (string, bool) {
	if fn == nil {
		return "", false
	}
	full := fn.FullName()
	for _, p := range eng.pureRe {
		if p.re.MatchString(full) {
			return p.name, true
		}
	}
	return "", false
}

func (eng *Engine) argsOnly(fn *types.Func) bool {
	if fn == nil {
		return false
	}
	full := fn.FullName()
	for _, re := range eng.argsOnlyRe {
		if re.MatchString(full) {
			return true
		}
	}
	return false
}

func (eng *Engine) unitOf(fn *types.Func) *FuncUnit {
	if u, ok := eng.units[fn]; ok {
		return u
	}
	if o := fn.Origin(); o != fn {
		return eng.units[o]
	}
	return nil
}

func (eng *Engine) isGhostFunc(fn *types.Func) bool {
	_, ok := eng.ghosts[fn]
	if !ok && os.Getenv("GOVC_DBG") != "" {
		fmt.Fprintf(os.Stderr, "not ghost: %s (%p) pkg %p; known:", fn.FullName(), fn, fn.Pkg())
		for g := range eng.ghosts {
			fmt.Fprintf(os.Stderr, " %s(%p pkg %p)", g.FullName(), g, g.Pkg())
		}
		fmt.Fprintln(os.Stderr)
	}
	return ok
}
func (eng *Engine) ghostDecl(fn *types.Func) *ghostInfo { return eng.ghosts[fn] }

func (eng *Engine) inModule(fn *types.Func) bool {
	return fn != nil && fn.Pkg() != nil && strings.HasPrefix(fn.Pkg().Path(), "github.com/oasisprotocol/oasis-core/")
}

// noEffect lists calls that have no effect on modelled state: logging,
// metrics, string formatting.
func (eng *Engine) noEffect(fn *types.Func) bool {
	if fn == nil {
		return false
	}
	full := fn.FullName()
	for _, re := range eng.noEffectRe {
		if re.MatchString(full) {
			return true
		}
	}
	if fn.Pkg() == nil {
		return false
	}
	path := fn.Pkg().Path()
	switch {
	case strings.HasSuffix(path, "oasis-core/go/common/logging"):
		return true
	case path == "fmt" && (strings.HasPrefix(fn.Name(), "Sprint") || fn.Name() == "Errorf"):
		return true
	case path == "strings" || path == "strconv" || path == "unicode" || path == "unicode/utf8" || path == "math" || path == "math/bits" || path == "time" && fn.Name() != "Sleep":
		return true
	case strings.HasPrefix(path, "github.com/prometheus/"):
		return true
	case path == "errors" && (fn.Name() == "Is" || fn.Name() == "New" || fn.Name() == "Unwrap"):
		return true
	case strings.HasSuffix(path, "oasis-core/go/common/errors") && fn.Name() == "New":
		return true
	case strings.HasSuffix(full, ".Logger") && strings.Contains(full, "Context"):
		return true
	case path == "bytes" && (fn.Name() == "Equal" || fn.Name() == "Compare" || fn.Name() == "HasPrefix"):
		return true
	case path == "encoding/hex" || path == "encoding/base64":
		return true
	}
	return false
}

// isSentinel: package-level error variable initialised by a constructor call
// (each call yields a distinct non-nil pointer).
// aliasTargetOf: the package-level variable an initialiser expression names, if any.
func aliasTargetOf(p *packages.Package, x ast.Expr) *types.Var {
	var id *ast.Ident
	switch y := ast.Unparen(x).(type) {
	case *ast.Ident:
		id = y
	case *ast.SelectorExpr:
		id = y.Sel
	}
	if id == nil {
		return nil
	}
	t, _ := p.TypesInfo.Uses[id].(*types.Var)
	if t == nil || t.Pkg() == nil || t.Parent() != t.Pkg().Scope() {
		return nil
	}
	return t
}

// sentinelAlias returns the variable v is initialised from (v = otherpkg.ErrX), or nil.
func (eng *Engine) sentinelAlias(v *types.Var) *types.Var {
	p := eng.byPath[v.Pkg().Path()]
	if p == nil {
		return nil
	}
	for _, f := range p.Syntax {
		for _, d := range f.Decls {
			gd, ok := d.(*ast.GenDecl)
			if !ok || gd.Tok != token.VAR {
				continue
			}
			for _, sp := range gd.Specs {
				vs := sp.(*ast.ValueSpec)
				for i, n := range vs.Names {
					if p.TypesInfo.Defs[n] == v && i < len(vs.Values) {
						return aliasTargetOf(p, vs.Values[i])
					}
				}
			}
		}
	}
	return nil
}

func (eng *Engine) isSentinel(v *types.Var) bool {
	p := eng.byPath[v.Pkg().Path()]
	if p == nil {
		return false
	}
	for _, f := range p.Syntax {
		for _, d := range f.Decls {
			gd, ok := d.(*ast.GenDecl)
			if !ok || gd.Tok != token.VAR {
				continue
			}
			for _, sp := range gd.Specs {
				vs := sp.(*ast.ValueSpec)
				for i, n := range vs.Names {
					if p.TypesInfo.Defs[n] != v || i >= len(vs.Values) {
						continue
					}
					if t := aliasTargetOf(p, vs.Values[i]); t != nil {
						return eng.isSentinel(t) // ErrX = otherpkg.ErrX
					}
					call, ok := vs.Values[i].(*ast.CallExpr)
					if !ok {
						return false
					}
					s := types.ExprString(call.Fun)
					// each constructor call yields a distinct non-nil object (errors, key formats)
					return s == "errors.New" || s == "fmt.Errorf" || strings.HasSuffix(s, ".New")
				}
			}
		}
	}
	return false
}

func (fv *FV) callMayWriteHeap(x *ast.CallExpr) bool {
	if tv, ok := fv.info.Types[x.Fun]; ok && tv.IsType() {
		return false
	}
	if id, ok := ast.Unparen(x.Fun).(*ast.Ident); ok {
		if b, ok := fv.info.Uses[id].(*types.Builtin); ok {
			switch b.Name() {
			case "len", "cap", "min", "max", "panic", "print", "println", "recover":
				return false
			}
			return true
		}
	}
	fn, _, isIface := fv.calleeOf(x)
	if fn != nil && isIface {
		// interface methods classified in noeffect.txt (plain or pure:) write nothing
		if _, ok := fv.eng.pureName(fn); ok || fv.eng.noEffect(fn) {
			return false
		}
	}
	if fn == nil || (isIface && fv.eng.unitOf(fn) == nil) {
		return true
	}
	if _, ok := fv.eng.pureName(fn); ok {
		return false
	}
	if strings.HasPrefix(fn.Name(), "gh_") {
		return false
	}
	if fv.eng.noEffect(fn) {
		return false
	}
	switch fn.FullName() {
	case "(*math/big.Int).Cmp", "(*math/big.Int).CmpAbs", "(*math/big.Int).Sign", "(*math/big.Int).IsInt64", "(*math/big.Int).IsUint64", "(*math/big.Int).Int64", "(*math/big.Int).Uint64", "errors.Is", "bytes.Equal":
		return false
	}
	if u := fv.eng.unitOf(fn); u != nil && u.C != nil && (u.C.Pure || (u.C.HasMod && len(u.C.Modifies) == 0)) {
		return false
	}
	return true
}

// nthFuncLit returns the n-th (1-based, source order) function literal of fd.
func nthFuncLit(fd *ast.FuncDecl, n int) *ast.FuncLit {
	var out *ast.FuncLit
	k := 0
	ast.Inspect(fd.Body, func(x ast.Node) bool {
		if l, ok := x.(*ast.FuncLit); ok {
			k++
			if k == n {
				out = l
			}
		}
		return out == nil
	})
	return out
}

func funcLitOrd(fd *ast.FuncDecl, lit *ast.FuncLit) int {
	k, found := 0, 0
	ast.Inspect(fd.Body, func(x ast.Node) bool {
		if l, ok := x.(*ast.FuncLit); ok {
			k++
			if l == lit {
				found = k
			}
		}
		return found == 0
	})
	return found
}
