package main

// T-KV: a ghost model of the consensus state tree (DESIGN.md §3). Keys are
// identified by (key format, encoded arguments); the tree is a pair of total
// SMT arrays over key ids. Trusted: keyformat.Encode is injective per format
// and different formats have disjoint ranges (prefix bytes differ).

import (
	"fmt"
	"go/ast"
	"go/types"
	"strings"
)

const kvDom = "ghost$kvDom"
const kvVal = "ghost$kvVal"
const kvWrites = "ghost$kvWrites"

func (fv *FV) kvDomArr(e *Env) Term { return fv.loadComp(e, kvDom, arrSort(sInt, sBool), tNull) }
func (fv *FV) kvValArr(e *Env) Term { return fv.loadComp(e, kvVal, arrSort(sInt, sInt), tNull) }

// bytesID: an abstract identity of a byte slice's contents.
func (fv *FV) bytesID(e *Env, v Value) Term {
	if v.K != kSlice {
		return fv.s.freshConst("bytesid", sInt)
	}
	bs := arrSort(sInt, sInt)
	fv.s.declFun("bytes_id", []string{bs, sInt, sInt}, sInt)
	return app(sInt, "bytes_id", fv.sliceInner(e, v, sInt), v.Off, v.Len)
}

// keyID builds the identity of keyformat.Encode(kf, args...).
func (fv *FV) keyID(e *Env, kf Term, args []Value, argTypes []types.Type) Term {
	var ts []Term
	var sorts []string
	for i, a := range args {
		var t types.Type
		if i < len(argTypes) {
			t = argTypes[i]
		}
		var term Term
		switch {
		case a.K == kSlice:
			term = fv.bytesID(e, a)
		case t != nil && isPointerTo(t, func(el types.Type) bool { _, s := sortOf(el); return s == sBlob }):
			// pointer to a byte array (public key, address, namespace): the key depends on the value
			p := t.Underlying().(*types.Pointer)
			if strings.HasPrefix(a.T.S, "(pa$") {
				body := a.T.S[len("(pa$") : len(a.T.S)-1]
				if j := strings.IndexByte(body, ' '); j > 0 {
					term = fv.loadComp(e, body[:j], sBlob, Term{body[j+1:], sRef})
					break
				}
			}
			term = fv.loadComp(e, boxComp(p.Elem()), sBlob, a.T)
		default:
			term = a.T
		}
		ts = append(ts, term)
		sorts = append(sorts, term.Sort)
	}
	name := "kenc$" + sanitize(strings.Join(sorts, "_"))
	if _, ok := fv.s.decls[name]; !ok {
		fv.s.declFun(name, append([]string{sRef}, sorts...), sInt)
		fv.s.declFun("kenc^kf", []string{sInt}, sRef)
		fv.s.declFun("kenc^sig", []string{sInt}, sInt)
		fv.nAddrFun++
		sig := fv.nAddrFun
		var binders, vars strings.Builder
		binders.WriteString("(kf Ref)")
		vars.WriteString("kf")
		var invs []string
		for i, s := range sorts {
			fmt.Fprintf(&binders, " (a%d %s)", i, s)
			fmt.Fprintf(&vars, " a%d", i)
			inv := fmt.Sprintf("%s^inv%d", name, i)
			fv.s.declFun(inv, []string{sInt}, s)
			invs = append(invs, fmt.Sprintf("(= (%s (%s %s)) a%d)", inv, name, "kf"+argList(len(sorts)), i))
		}
		body := fmt.Sprintf("(and (= (kenc^kf (%s %s)) kf) (= (kenc^sig (%s %s)) %d) %s)", name, vars.String(), name, vars.String(), sig, strings.Join(invs, " "))
		fv.s.axiom(name, fmt.Sprintf("(forall (%s) (! %s :pattern ((%s %s))))", binders.String(), body, name, vars.String()))
		fv.trustedUsed["keyformat.Encode is injective in (format, arguments) and formats have disjoint key ranges"] = true
	}
	return app(sInt, name, append([]Term{kf}, ts...)...)
}

func argList(n int) string {
	var b strings.Builder
	for i := 0; i < n; i++ {
		fmt.Fprintf(&b, " a%d", i)
	}
	return b.String()
}

func isPointerTo(t types.Type, pred func(types.Type) bool) bool {
	p, ok := t.Underlying().(*types.Pointer)
	return ok && pred(p.Elem())
}

// treeWritesVar is the ghost map (declared in the cometbft/api contracts) that
// attributes successful state-tree writes to the tree object they went through.
const treeWritesVar = "consensus/cometbft/api.GTreeW"

func treeWritesComp() string { return "G$" + sanitize(treeWritesVar) }

func (fv *FV) kvBumpWrites(e *Env, ok Term, recv *Value) {
	w := fv.loadComp(e, kvWrites, sInt, tNull)
	fv.storeComp(e, kvWrites, sInt, ite(ok, add(w, intLit(1)), w), tNull)
	if recv != nil && fv.eng.ghostVarNamed(treeWritesVar) {
		srt := arrSort(sRef, sInt)
		cur := fv.loadComp(e, treeWritesComp(), srt, tNull)
		fv.storeComp(e, treeWritesComp(), srt, ite(ok, store(cur, recv.T, add(sel(cur, recv.T), intLit(1))), cur), tNull)
	}
}

func init() {
	enc := func(fv *FV, e *Env, x *ast.CallExpr, recv *Value, args []Value) (Value, bool) {
		if recv == nil || x.Ellipsis.IsValid() {
			return Value{}, false
		}
		var ats []types.Type
		for _, a := range x.Args {
			ats = append(ats, fv.typeOf(a))
		}
		id := fv.keyID(e, recv.T, args, ats)
		v := fv.freshValue(fv.typeOf(x), "key")
		if v.K == kSlice {
			fv.s.assume(not(eq(v.T, tNull)))
			fv.sliceKeyID[v.T.S] = id
		}
		return v, true
	}
	libModels["(*github.com/oasisprotocol/oasis-core/go/common/keyformat.KeyFormat).Encode"] = enc
	libModelDocs["(*github.com/oasisprotocol/oasis-core/go/common/keyformat.KeyFormat).Encode"] = "returns a key whose identity is an injective function of (format, argument values)"

	keyOf := func(fv *FV, e *Env, k Value) Term {
		if id, ok := fv.sliceKeyID[k.T.S]; ok {
			return id
		}
		fv.note("state tree accessed with a key that is not a direct keyformat.Encode result: key identity abstracted by its bytes")
		return fv.bytesIDKey(e, k)
	}
	const tree = "(github.com/oasisprotocol/oasis-core/go/storage/mkvs.KeyValueTree)."
	const itree = "(github.com/oasisprotocol/oasis-core/go/storage/mkvs.ImmutableKeyValueTree)."
	libModelDocs[tree+"Insert"] = "T-KV: on success the key maps to the value's bytes and the write counter grows; on error (unavailable state) nothing is specified"
	libModels[tree+"Insert"] = func(fv *FV, e *Env, x *ast.CallExpr, recv *Value, args []Value) (Value, bool) {
		if len(args) != 3 {
			return Value{}, false
		}
		kid := keyOf(fv, e, args[1])
		vid := fv.bytesID(e, args[2])
		err := fv.freshValue(fv.typeOf(x), "kverr")
		ok := eq(err.T, tNull)
		fv.assume(e, implies(not(ok), fv.errIs(err.T, fv.unavailSentinel())))
		dom, val := fv.kvDomArr(e), fv.kvValArr(e)
		fv.storeComp(e, kvDom, arrSort(sInt, sBool), ite(ok, store(dom, kid, tTrue), fv.s.freshConst("kvdom?", dom.Sort)), tNull)
		fv.storeComp(e, kvVal, arrSort(sInt, sInt), ite(ok, store(val, kid, vid), fv.s.freshConst("kvval?", val.Sort)), tNull)
		fv.kvBumpWrites(e, ok, recv)
		return err, true
	}
	libModelDocs[tree+"Remove"] = "T-KV: on success the key is absent and the write counter grows"
	libModels[tree+"Remove"] = func(fv *FV, e *Env, x *ast.CallExpr, recv *Value, args []Value) (Value, bool) {
		if len(args) != 2 {
			return Value{}, false
		}
		kid := keyOf(fv, e, args[1])
		err := fv.freshValue(fv.typeOf(x), "kverr")
		ok := eq(err.T, tNull)
		fv.assume(e, implies(not(ok), fv.errIs(err.T, fv.unavailSentinel())))
		dom := fv.kvDomArr(e)
		fv.storeComp(e, kvDom, arrSort(sInt, sBool), ite(ok, store(dom, kid, tFalse), fv.s.freshConst("kvdom?", dom.Sort)), tNull)
		fv.kvBumpWrites(e, ok, recv)
		return err, true
	}
	get := func(fv *FV, e *Env, x *ast.CallExpr, recv *Value, args []Value) (Value, bool) {
		if len(args) != 2 {
			return Value{}, false
		}
		kid := keyOf(fv, e, args[1])
		tup, _ := fv.typeOf(x).(*types.Tuple)
		if tup == nil || tup.Len() != 2 {
			return Value{}, false
		}
		v := fv.freshValue(tup.At(0).Type(), "kvget")
		err := fv.freshValue(tup.At(1).Type(), "kverr")
		ok := eq(err.T, tNull)
		fv.assume(e, implies(not(ok), fv.errIs(err.T, fv.unavailSentinel())))
		present := sel(fv.kvDomArr(e), kid)
		fv.assume(e, implies(ok, and(eq(not(eq(v.T, tNull)), present), implies(present, eq(fv.bytesID(e, v), sel(fv.kvValArr(e), kid))), implies(not(present), eq(v.Len, intLit(0))))))
		return Value{K: kTuple, Tuple: []Value{v, err}}, true
	}
	libModelDocs[tree+"RemoveExisting"] = "T-KV: returns the stored bytes (non-nil iff present) and removes the key"
	libModels[tree+"RemoveExisting"] = func(fv *FV, e *Env, x *ast.CallExpr, recv *Value, args []Value) (Value, bool) {
		r, ok := get(fv, e, x, recv, args)
		if !ok {
			return r, false
		}
		kid := keyOf(fv, e, args[1])
		okT := eq(r.Tuple[1].T, tNull)
		dom := fv.kvDomArr(e)
		fv.storeComp(e, kvDom, arrSort(sInt, sBool), ite(okT, store(dom, kid, tFalse), fv.s.freshConst("kvdom?", dom.Sort)), tNull)
		fv.kvBumpWrites(e, okT, recv)
		return r, true
	}
	libModelDocs[tree+"Get"] = "T-KV: returns the stored bytes (non-nil) iff the key is present"
	libModels[tree+"Get"] = get
	libModels[itree+"Get"] = get
	libModels["(*"+modPrefix+"consensus/cometbft/api.ImmutableState).Get"] = get
	libModelDocs["(*"+modPrefix+"consensus/cometbft/api.ImmutableState).Get"] = "delegates to the state tree's Get (T-KV)"
	libModelDocs[itree+"Get"] = libModelDocs[tree+"Get"]
}

// bytesIDKey identifies an arbitrary key slice by its contents (distinct from
// every keyformat key only if its contents differ — abstracted).
func (fv *FV) bytesIDKey(e *Env, k Value) Term {
	fv.s.declFun("kenc$raw", []string{sInt}, sInt)
	return app(sInt, "kenc$raw", fv.bytesID(e, k))
}
