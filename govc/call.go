package main

// Calls: builtins, conversions, ghost builtins, library models, contracts,
// inlined closures and the opaque fallback.

import (
	"strconv"
	"fmt"
	"regexp"
	"go/ast"
	"go/constant"
	"go/token"
	"go/types"
	"strings"
)

type specCtx struct {
	old     *Env
	bind    map[types.Object]Value
	results []Value
	preAlloc Term // alloc array before the call (for fresh())
	lenient  bool // locals without a value on this path are unconstrained (ensures-local)
	callArgs []Value // precall clauses: the argument values of the call being made (argIs)
	facts    *[]Term // typing facts (slice lengths, integer ranges) of closed terms read while evaluating
	cl       *Clause // the clause being evaluated
}

type inlineCtx struct {
	sig   *types.Signature
	exits []*Exit
}

func (fv *FV) calleeOf(x *ast.CallExpr) (fn *types.Func, recv ast.Expr, iface bool) {
	fun := ast.Unparen(x.Fun)
	switch f := fun.(type) {
	case *ast.Ident:
		if o, ok := fv.info.Uses[f].(*types.Func); ok {
			return o, nil, false
		}
	case *ast.SelectorExpr:
		if sel, ok := fv.info.Selections[f]; ok {
			if sel.Kind() == types.MethodVal {
				m := sel.Obj().(*types.Func)
				_, isIface := sel.Recv().Underlying().(*types.Interface)
				if tp, ok := sel.Recv().(*types.TypeParam); ok {
					_ = tp
					isIface = true
				}
				return m, f.X, isIface
			}
			return nil, nil, false
		}
		if o, ok := fv.info.Uses[f.Sel].(*types.Func); ok {
			return o, nil, false
		}
	case *ast.IndexExpr:
		// generic instantiation f[T](...)
		if id := identOf(f.X); id != nil {
			if o, ok := fv.info.Uses[id].(*types.Func); ok {
				return o, nil, false
			}
		}
	}
	return nil, nil, false
}

func (fv *FV) call(e *Env, x *ast.CallExpr) Value {
	savedCall := fv.curCall
	fv.curCall = exprStr(x.Fun) + " (" + fv.posStr(x.Pos()) + ")"
	defer func() { fv.curCall = savedCall }()
	rt := fv.typeOf(x)
	// conversion
	if tv, ok := fv.info.Types[x.Fun]; ok && tv.IsType() {
		if len(x.Args) != 1 {
			return fv.unknown(rt, "conversion arity")
		}
		return fv.convert(e, x, fv.expr(e, x.Args[0]), fv.typeOf(x.Args[0]), tv.Type)
	}
	// builtin
	if id, ok := ast.Unparen(x.Fun).(*ast.Ident); ok {
		if b, ok := fv.info.Uses[id].(*types.Builtin); ok {
			return fv.builtin(e, x, b.Name())
		}
	}
	// immediately invoked function literal
	if lit, ok := ast.Unparen(x.Fun).(*ast.FuncLit); ok && fv.spec == nil {
		var args []Value
		for _, a := range x.Args {
			args = append(args, fv.expr(e, a))
		}
		return fv.inlineLit(e, lit, args)
	}
	fn, recvX, isIface := fv.calleeOf(x)
	if fn != nil && fn.Pkg() != nil && strings.HasPrefix(fn.Name(), "gh_") {
		return fv.ghostBuiltin(e, x, fn)
	}
	if fn != nil && fv.eng.isGhostFunc(fn) {
		return fv.inlineGhost(e, x, fn)
	}
	if fv.spec != nil {
		if fn != nil {
			if v, ok := fv.specPureCall(e, x, fn, recvX); ok {
				return v
			}
		}
		fv.specErr("call in contract expression: " + exprStr(x.Fun))
		return fv.freshValue(rt, "speccall")
	}
	// evaluate receiver and arguments
	var recv *Value
	if recvX != nil {
		rv := fv.recvValue(e, recvX, fn)
		recv = &rv
	}
	var args []Value
	if len(x.Args) == 1 && fn != nil {
		if tup, ok := fv.typeOf(x.Args[0]).(*types.Tuple); ok {
			args = fv.multi(e, x.Args[0], tup.Len())
		}
	}
	if args == nil {
		for _, a := range x.Args {
			args = append(args, fv.expr(e, a))
		}
	}
	if recv != nil {
		fv.escape(e, *recv)
	}
	for _, a := range args {
		fv.escape(e, a)
	}
	if e.dead {
		return fv.freshValue(rt, "dead")
	}
	if fn != nil && fv.u != nil && fv.u.C != nil {
		for _, pc := range fv.u.C.PreCalls {
			if !pc.Re.MatchString(fn.FullName()) {
				continue
			}
			fv.notePremise(e, pc.Cl, &specCtx{old: fv.entry, preAlloc: fv.entry.alloc, lenient: true, callArgs: args})
			t := fv.specTermO(e, pc.Cl, &specCtx{old: fv.entry, preAlloc: fv.entry.alloc, lenient: true, callArgs: args})
			fv.obligeNamed(e, "precall", fmt.Sprintf("precall:%s#%d", pc.Cl.Label, fv.siteOrd("precall"+pc.Cl.Label)), x,
				fmt.Sprintf("call of %s is made only when %q", fn.FullName(), pc.Cl.Text), t)
		}
	}
	if fn == nil {
		// call of a function value
		fvT := fv.expr(e, x.Fun)
		if lit, ok := fv.closures[fvT.T.S]; ok {
			return fv.inlineLit(e, lit, args)
		}
		fv.note("call through function value %s: opaque", exprStr(x.Fun))
		res := fv.opaqueCall(e, x, nil, recv, args, rt, true)
		if rt != nil && isErrorType(rt) && res.K == kScalar {
			// name the outcome: (err == nil) == fnAccepts(f, args)
			fv.assume(e, eq(eq(res.T, tNull), fv.fnAcceptsTerm(e, fvT, args)))
			fv.assumptionsUsed["a function-valued parameter returning error is treated as a deterministic predicate of its arguments (fnAccepts)"] = true
		}
		return res
	}
	if isIface {
		if m, ok := libModels[fn.FullName()]; ok {
			if v, ok := m(fv, e, x, recv, args); ok {
				fv.trustedUsed["library model: "+fn.FullName()] = true
				fv.applyBumps(e, fn, v)
				return v
			}
		}
	}
	if !isIface {
		if m, ok := libModels[fn.FullName()]; ok {
			if v, ok := m(fv, e, x, recv, args); ok {
				fv.trustedUsed["library model: "+fn.FullName()] = true
				fv.applyBumps(e, fn, v) // ghost call counters also count modelled library calls
				return v
			}
		}
		if origin := fn.Origin(); origin != nil {
			if m, ok := libModels[origin.FullName()]; ok {
				if v, ok := m(fv, e, x, recv, args); ok {
					fv.trustedUsed["library model: "+origin.FullName()] = true
					return v
				}
			}
		}
	}
	if u := fv.eng.unitOf(fn); u != nil && u.C != nil && !u.C.BodyOnly {
		sigF := fn.Type().(*types.Signature)
		switch {
		case x.Ellipsis.IsValid():
			fv.note("variadic call f(xs...) to %s: opaque", fn.FullName())
		case sigF.Variadic():
			// f(a, b, extra...) : the variadic parameter is a fresh slice holding the
			// extra arguments (its length is exact, its contents are abstracted)
			np := sigF.Params().Len()
			if len(args) >= np-1 {
				vt := sigF.Params().At(np - 1).Type()
				n := len(args) - (np - 1)
				var sl Value
				if st, ok := vt.Underlying().(*types.Slice); ok && n > 0 && !isObjectType(st.Elem()) {
					// the extra arguments, in order, in a fresh backing array
					r := fv.allocRef(e, "variadic")
					for j := 0; j < n; j++ {
						fv.storeCell(e, "E$"+sanitize(elemKey(st.Elem())), st.Elem(), "", args[np-1+j], r, intLit(int64(j)))
					}
					sl = Value{K: kSlice, T: r, Off: intLit(0), Len: intLit(int64(n)), Cap: intLit(int64(n)), Type: vt}
				} else {
					sl = fv.freshValue(vt, "variadic")
					if sl.K == kSlice {
						fv.assume(e, and(eq(sl.Len, intLit(int64(n))), eq(sl.Off, intLit(0))))
						if n == 0 {
							fv.assume(e, eq(sl.T, tNull))
						}
					}
				}
				packed := append(append([]Value{}, args[:np-1]...), sl)
				return fv.applyContract(e, x, u, recv, packed, rt)
			}
			fv.note("variadic call to %s with too few arguments: opaque", fn.FullName())
		default:
			return fv.applyContract(e, x, u, recv, args, rt)
		}
	}
	if name, ok := fv.eng.pureName(fn); ok {
		return fv.pureCall(e, name, rt, recv, args)
	}
	if fv.eng.noEffect(fn) {
		return fv.pureResult(e, fn, rt, recv, args)
	}
	return fv.opaqueCall(e, x, fn, recv, args, rt, (isIface || fv.eng.inModule(fn)) && !fv.eng.argsOnly(fn))
}

func exprStr(x ast.Expr) string { return types.ExprString(x) }

// recvValue evaluates a method receiver, taking its address when the method
// has a pointer receiver and the operand is an addressable value.
func (fv *FV) recvValue(e *Env, x ast.Expr, fn *types.Func) Value {
	xt := fv.typeOf(x)
	if sig, ok := fn.Type().(*types.Signature); ok && sig.Recv() != nil && xt != nil {
		if _, ptrRecv := sig.Recv().Type().Underlying().(*types.Pointer); ptrRecv {
			if _, isPtr := xt.Underlying().(*types.Pointer); !isPtr && isObjectType(xt) {
				v := fv.expr(e, x)
				v.Type = types.NewPointer(xt) // (&x).m(): the callee may write the object
				return v
			}
			if _, isPtr := xt.Underlying().(*types.Pointer); !isPtr && !isObjectType(xt) {
				if _, isIface := xt.Underlying().(*types.Interface); !isIface {
					// x.m() with pointer receiver on an addressable value: (&x).m()
					return fv.addrOf(e, x, sig.Recv().Type())
				}
			}
		}
	}
	return fv.expr(e, x) // object values are represented by their address
}

// pureResult: a call with no effect on modelled state; its result is an
// uninterpreted function of nothing we track (fresh).
func (fv *FV) pureResult(e *Env, fn *types.Func, rt types.Type, recv *Value, args []Value) Value {
	v := fv.freshValue(rt, "r$"+fn.Name())
	fv.nonNilResults(fn, v)
	fv.assumeAllocated(e, v)
	fv.applyBumps(e, fn, v)
	return v
}

// assumeAllocated: whatever a call returns exists (is allocated) afterwards.
func (fv *FV) assumeAllocated(e *Env, v Value) {
	switch v.K {
	case kTuple:
		for _, t := range v.Tuple {
			fv.assumeAllocated(e, t)
		}
	case kSlice:
		fv.assume(e, or(eq(v.T, tNull), sel(e.alloc, fv.rootOf(v.T))))
	case kScalar:
		if v.T.Sort == sRef {
			fv.assume(e, or(eq(v.T, tNull), sel(e.alloc, fv.rootOf(v.T))))
		}
	}
}

func (fv *FV) nonNilResults(fn *types.Func, v Value) {
	if fn == nil {
		return
	}
	switch fn.FullName() {
	case "fmt.Errorf", "errors.New", "github.com/oasisprotocol/oasis-core/go/common/errors.New":
		if v.K == kScalar && v.T.Sort == sRef {
			fv.s.assume(not(eq(v.T, tNull)))
		}
	}
}

func (fv *FV) opaqueCall(e *Env, x *ast.CallExpr, fn *types.Func, recv *Value, args []Value, rt types.Type, havocAll bool) Value {
	name := exprStr(x.Fun)
	if fn != nil {
		name = fn.FullName()
	}
	fv.opaqueUsed[name] = true
	savedKeep := fv.keepCounters
	fv.keepCounters = nil
	if fn == nil || !fv.eng.inModule(fn) || isIfaceMethod(fn) {
		fv.keepCounters = map[string]bool{}
	} else if len(fv.eng.bumpRe) > 0 {
		fv.keepCounters = fv.eng.bumpSetInner(fn) // in-module callee without contract: static call-graph analysis of its source
	}
	defer func() { fv.keepCounters = savedKeep }()
	if havocAll {
		fv.note("callee without contract: %s", name)
		fv.havocAll(e)
	} else {
		// external code: may write through pointer/slice/map arguments only
		all := args
		if recv != nil {
			all = append([]Value{*recv}, args...)
		}
		for ai, a := range all {
			if fn != nil && (fv.eng.argsOnly(fn) || strings.Contains(fn.Name(), "Unmarshal")) && a.Type != nil {
				if sl, ok := a.Type.Underlying().(*types.Slice); ok {
					if b, ok := sl.Elem().Underlying().(*types.Basic); ok && b.Kind() == types.Uint8 {
						continue // decoders read their input buffer, they do not write it
					}
				}
			}
			if fn != nil && fv.eng.argsOnly(fn) && a.Type != nil {
				if _, isIf := a.Type.Underlying().(*types.Interface); isIf && (ai == 0 && recv != nil || isNamed(a.Type, "context", "Context")) {
					// args: class: the callee's own (receiver-private) state and the
					// context are opaque to the verified code: every read of them goes
					// through further opaque calls, so no modelled location is written.
					continue
				}
			}
			fv.havocReachable(e, a)
		}
		fv.havocAlloc(e)
	}
	v := fv.freshValue(rt, "r$"+sanitize(lastSeg(name)))
	fv.nonNilResults(fn, v)
	fv.assumeAllocated(e, v)
	fv.applyBumps(e, fn, v)
	return v
}

// applyBumps increments the ghost call counters (bump:/bumpok: classes) of fn.
func (fv *FV) applyBumps(e *Env, fn *types.Func, v Value) {
	for _, b := range fv.eng.bumpsOf(fn) {
		if b.in != "" && (fv.u == nil || fv.u.Spec == nil || fv.u.Spec.Dir != b.in) {
			continue
		}
		gv := b.name
		comp := "G$" + sanitize(gv)
		if !fv.eng.ghostVarNamed(gv) {
			fv.specErr("bump: class names ghost variable " + gv + " which no loaded contract file declares")
		}
		cur := fv.loadComp(e, comp, sInt, tNull)
		inc := add(cur, intLit(1))
		if b.onlyOK {
			// bumpok: only calls that return a nil error are counted
			errV := v
			if v.K == kTuple && len(v.Tuple) > 0 {
				errV = v.Tuple[len(v.Tuple)-1]
			}
			if errV.K == kScalar && errV.T.Sort == sRef {
				inc = ite(eq(errV.T, tNull), inc, cur)
			}
		}
		if b.onlyTrue {
			if v.K == kScalar && v.T.Sort == sBool {
				inc = ite(v.T, inc, cur)
			}
		}
		fv.storeComp(e, comp, sInt, inc, tNull)
	}
}

func isErrorType(t types.Type) bool {
	n, ok := types.Unalias(t).(*types.Named)
	return ok && n.Obj().Pkg() == nil && n.Obj().Name() == "error"
}

func isIfaceMethod(fn *types.Func) bool {
	sig, ok := fn.Type().(*types.Signature)
	return ok && sig.Recv() != nil && types.IsInterface(sig.Recv().Type())
}

func lastSeg(s string) string {
	if i := strings.LastIndexAny(s, "./"); i >= 0 {
		return s[i+1:]
	}
	return s
}

// havocReachable forgets the contents an external callee could write through v.
func (fv *FV) havocReachable(e *Env, v Value) {
	if v.Type == nil {
		if v.K == kSlice || v.T.Sort == sRef {
			fv.havocAll(e)
		}
		return
	}
	switch u := v.Type.Underlying().(type) {
	case *types.Slice:
		if v.K == kSlice {
			fv.havocSliceElems(e, v, u.Elem())
		}
	case *types.Pointer:
		if isObjectType(u.Elem()) {
			fv.havocObject(e, v.T, u.Elem())
		} else {
			fv.havocCell(e, boxComp(u.Elem()), u.Elem(), v.T)
		}
	case *types.Map:
		fv.havocMap(e, v.T, u)
	case *types.Interface, *types.Signature, *types.Chan:
		fv.havocAll(e)
	case *types.Struct:
		// by-value struct: callee gets a copy; nested pointers may be written
		for i := 0; i < u.NumFields(); i++ {
			switch u.Field(i).Type().Underlying().(type) {
			case *types.Pointer, *types.Map, *types.Slice, *types.Interface, *types.Signature, *types.Chan:
				fv.havocAll(e)
				return
			}
		}
	}
}

func (fv *FV) havocCell(e *Env, comp string, t types.Type, idx ...Term) {
	fv.storeCell(e, comp, t, "", fv.freshValue(t, "hv"), idx...)
}

func (fv *FV) havocObject(e *Env, r Term, t types.Type) {
	if isBigInt(t) {
		fv.storeCell(e, "bigval", nil, sInt, scalar(fv.s.freshConst("hv", sInt)), r)
		return
	}
	if a, ok := objArray(t); ok {
		for i := int64(0); i < a.Len(); i++ {
			fv.havocObject(e, fv.elemAddr(a.Elem(), r, intLit(i)), a.Elem())
		}
		return
	}
	st := structOf(t)
	if st == nil {
		return
	}
	for i := 0; i < st.NumFields(); i++ {
		f := st.Field(i)
		if isObjectType(f.Type()) {
			fv.havocObject(e, fv.fieldAddr(t, f, r), f.Type())
			continue
		}
		fv.havocCell(e, fieldComp(t, f), f.Type(), r)
	}
}

func (fv *FV) havocSliceElems(e *Env, s Value, elem types.Type) {
	if isObjectType(elem) {
		// elements are objects at element addresses: forget the fields of all objects of that type
		for _, c := range leafComps(elem) {
			fv.havocComp(e, c)
		}
		return
	}
	k, es := sortOf(elem)
	if k == kSlice {
		fv.havocAll(e)
		return
	}
	comp := "E$" + sanitize(elemKey(elem))
	a := fv.heapGet(e, comp, cellSort([]string{sRef, sInt}, es))
	n := fv.s.freshConst(comp, a.Sort)
	inner := fv.s.freshConst("hvelems", arrSort(sInt, es))
	fv.s.assume(eq(n, store(a, s.T, inner)))
	fv.heapSet(e, comp, n)
}

func (fv *FV) havocMap(e *Env, m Term, mt *types.Map) {
	ks := mapKeySort(mt)
	domSort := cellSort([]string{sRef, ks}, sBool)
	dom := fv.heapGet(e, mapDomComp(mt), domSort)
	nd := fv.s.freshConst(mapDomComp(mt), domSort)
	fv.s.assume(eq(nd, store(dom, m, fv.s.freshConst("hvdom", arrSort(ks, sBool)))))
	fv.heapSet(e, mapDomComp(mt), nd)
	nl := fv.s.freshConst("hvlen", sInt)
	fv.s.assume(le(intLit(0), nl))
	fv.storeComp(e, "ML", sInt, nl, m)
	if k, _ := sortOf(mt.Elem()); k == kSlice {
		fv.havocAll(e)
		return
	}
	es := elemSortOf(mt.Elem())
	if isObjectType(mt.Elem()) {
		es = sRef
	}
	vs := cellSort([]string{sRef, ks}, es)
	va := fv.heapGet(e, mapValComp(mt), vs)
	nv := fv.s.freshConst(mapValComp(mt), vs)
	fv.s.assume(eq(nv, store(va, m, fv.s.freshConst("hvval", arrSort(ks, es)))))
	fv.heapSet(e, mapValComp(mt), nv)
}

// ---------------------------------------------------------------------------
// Conversions.

func (fv *FV) convert(e *Env, at ast.Node, v Value, from, to types.Type) Value {
	if from == nil || to == nil {
		return fv.unknown(to, "conversion")
	}
	fk, fs := sortOf(from)
	tk, ts := sortOf(to)
	switch {
	case fk == kScalar && tk == kScalar && fs == sInt && ts == sInt:
		lo, hi, bits, signed, ok := intRange(to)
		if !ok || fv.spec != nil {
			return Value{K: kScalar, T: v.T, Type: to}
		}
		flo, fhi, _, _, fok := intRange(from)
		if fok && flo.Cmp(lo) >= 0 && fhi.Cmp(hi) <= 0 {
			return Value{K: kScalar, T: v.T, Type: to} // widening
		}
		inRange := and(le(bigLit(lo), v.T), le(v.T, bigLit(hi)))
		if fv.u != nil && fv.u.C != nil && fv.u.C.Safety["conv"] {
			fv.oblige(e, "conv", at, "conversion to "+typeStr(to)+" does not truncate", inRange)
			fv.assume(e, inRange)
			return Value{K: kScalar, T: v.T, Type: to}
		}
		m := bigLit(pow2(bits))
		var r Term
		if signed {
			h := bigLit(pow2(bits - 1))
			r = sub(app(sInt, "mod", add(v.T, h), m), h)
		} else {
			r = app(sInt, "mod", v.T, m)
		}
		return Value{K: kScalar, T: r, Type: to}
	case fk == kSlice && tk == kSlice:
		v.Type = to
		return v
	case fk == kScalar && tk == kScalar && fs == ts:
		return Value{K: kScalar, T: v.T, Type: to}
	case fk == kSlice && ts == sStr:
		fv.s.declFun("str_of_bytes", []string{arrSort(sInt, sInt), sInt, sInt}, sStr)
		fv.s.declFun("str_len", []string{sStr}, sInt)
		inner := fv.sliceInner(e, v, sInt)
		r := app(sStr, "str_of_bytes", inner, v.Off, v.Len)
		if fv.spec == nil {
			fv.assume(e, eq(app(sInt, "str_len", r), v.Len))
		}
		return Value{K: kScalar, T: r, Type: to}
	case fs == sStr && tk == kSlice:
		fv.s.declFun("str_len", []string{sStr}, sInt)
		fv.s.declFun("str_bytes", []string{sStr}, arrSort(sInt, sInt))
		if fv.spec != nil {
			return fv.unknown(to, "string to bytes in spec")
		}
		r := fv.allocRef(e, "strbytes")
		comp := "E$" + sanitize(sInt)
		a := fv.heapGet(e, comp, cellSort([]string{sRef, sInt}, sInt))
		n := fv.s.freshConst(comp, a.Sort)
		fv.s.assume(eq(n, store(a, r, app(arrSort(sInt, sInt), "str_bytes", v.T))))
		fv.heapSet(e, comp, n)
		ln := app(sInt, "str_len", v.T)
		fv.assume(e, le(intLit(0), ln))
		return Value{K: kSlice, T: r, Off: intLit(0), Len: ln, Cap: ln, Type: to}
	case fk == kSlice && tk == kScalar:
		// slice to array conversion
		if _, ok := to.Underlying().(*types.Array); ok && ts == sBlob && v.Off.S == "0" {
			return Value{K: kScalar, T: app(sBlob, "blob_of", fv.sliceInner(e, v, sInt)), Type: to}
		}
		if at_, ok := to.Underlying().(*types.Array); ok && strings.HasPrefix(ts, "(Array ") {
			_, es := arrParts(ts)
			if v.Off.S == "0" {
				return Value{K: kScalar, T: fv.sliceInner(e, v, es), Type: to}
			}
			_ = at_
		}
	}
	return fv.unknown(to, "conversion "+typeStr(from)+" -> "+typeStr(to))
}

// sliceInner returns the backing Array Int elem of a slice.
func (fv *FV) sliceInner(e *Env, s Value, es string) Term {
	if s.Inner.S != "" {
		return s.Inner
	}
	key := es
	if es == sRef && s.Type != nil {
		if sl, ok := s.Type.Underlying().(*types.Slice); ok {
			key = elemKey(sl.Elem())
		}
	}
	comp := "E$" + sanitize(key)
	return sel(fv.heapGet(e, comp, cellSort([]string{sRef, sInt}, es)), s.T)
}

// ---------------------------------------------------------------------------
// Builtins.

func (fv *FV) builtin(e *Env, x *ast.CallExpr, name string) Value {
	rt := fv.typeOf(x)
	switch name {
	case "len", "cap":
		if lm, ok := fv.localMapOf(e, x.Args[0]); ok {
			if fv.spec == nil {
				fv.localMapCardFacts(e, lm)
			}
			return Value{K: kScalar, T: lm.Len, Type: rt}
		}
		v := fv.expr(e, x.Args[0])
		at := fv.typeOf(x.Args[0])
		if at == nil {
			break
		}
		switch u := deref(at).Underlying().(type) {
		case *types.Slice:
			if v.K == kSlice {
				if name == "cap" {
					return Value{K: kScalar, T: v.Cap, Type: rt}
				}
				return Value{K: kScalar, T: v.Len, Type: rt}
			}
		case *types.Array:
			return Value{K: kScalar, T: intLit(u.Len()), Type: rt}
		case *types.Map:
			l := fv.mapLen(e, v.T)
			l = ite(eq(v.T, tNull), intLit(0), l)
			if fv.spec == nil {
				fv.assume(e, le(intLit(0), l))
				fv.mapCardFacts(e, v.T, u)
			}
			return Value{K: kScalar, T: l, Type: rt}
		case *types.Basic:
			fv.s.declFun("str_len", []string{sStr}, sInt)
			l := app(sInt, "str_len", v.T)
			if fv.spec == nil {
				fv.assume(e, le(intLit(0), l))
			}
			return Value{K: kScalar, T: l, Type: rt}
		}
	case "append":
		return fv.appendBuiltin(e, x)
	case "make":
		t := fv.typeOf(x.Args[0])
		switch u := t.Underlying().(type) {
		case *types.Slice:
			n := fv.expr(e, x.Args[1]).T
			c := n
			if len(x.Args) > 2 {
				c = fv.expr(e, x.Args[2]).T
			}
			fv.oblige(e, "bounds", x, "make: non-negative length and len <= cap", and(le(intLit(0), n), le(n, c)))
			fv.assume(e, and(le(intLit(0), n), le(n, c)))
			if fv.u != nil && fv.u.C != nil && fv.u.C.Safety["alloc"] {
				fv.allocBound(e, x, c)
			}
			r := fv.allocRef(e, "mk")
			if !isObjectType(u.Elem()) {
				if k, es := sortOf(u.Elem()); k == kScalar && es != sStr {
					comp := "E$" + sanitize(elemKey(u.Elem()))
					a := fv.heapGet(e, comp, cellSort([]string{sRef, sInt}, es))
					nn := fv.s.freshConst(comp, a.Sort)
					fv.s.assume(eq(nn, store(a, r, zeroTerm(arrSort(sInt, es)))))
					fv.heapSet(e, comp, nn)
				}
			}
			fv.markPrivate(e, r, u.Elem())
			return Value{K: kSlice, T: r, Off: intLit(0), Len: n, Cap: c, Type: t}
		case *types.Map:
			r := fv.allocRef(e, "mkmap")
			fv.initEmptyMap(e, r, u)
			fv.freshMapRefs[r.S] = true
			return Value{K: kScalar, T: r, Type: t}
		case *types.Chan:
			return Value{K: kScalar, T: fv.allocRef(e, "chan"), Type: t}
		}
	case "new":
		t := fv.typeOf(x.Args[0])
		if isObjectType(t) {
			return Value{K: kScalar, T: fv.allocObject(e, t, "new"), Type: rt}
		}
		r := fv.allocRef(e, "new")
		fv.storeCell(e, boxComp(t), t, "", fv.zeroValue(e, t), r)
		return Value{K: kScalar, T: r, Type: rt}
	case "delete":
		if lm, ok := fv.localMapOf(e, x.Args[0]); ok {
			k := fv.expr(e, x.Args[1])
			id := ast.Unparen(x.Args[0]).(*ast.Ident)
			nm := lm
			nm.Len = fv.nameIfBig("len", ite(sel(lm.T, k.T), sub(lm.Len, intLit(1)), lm.Len))
			nm.T = fv.nameIfBig("dom", store(lm.T, k.T, tFalse))
			e.vars[fv.info.ObjectOf(id)] = nm
			return Value{}
		}
		m := fv.expr(e, x.Args[0])
		k := fv.expr(e, x.Args[1])
		if mt, ok := fv.typeOf(x.Args[0]).Underlying().(*types.Map); ok {
			fv.mapDelete(e, m.T, mt, k.T)
		}
		return Value{}
	case "copy":
		dst := fv.expr(e, x.Args[0])
		src := fv.expr(e, x.Args[1])
		return fv.copyBuiltin(e, x, dst, src, rt)
	case "panic":
		fv.expr(e, x.Args[0])
		if fv.spec == nil && fv.u != nil && fv.u.C != nil && fv.u.C.PanicsWhen != nil && !e.dead {
			cl := fv.u.C.PanicsWhen
			t := fv.specTermO(e, cl, &specCtx{old: fv.entry, preAlloc: fv.entry.alloc, lenient: true})
			fv.obligeNamed(e, "panicwhen", fmt.Sprintf("panics:when#%d", fv.siteOrd("panicswhen")), x,
				fmt.Sprintf("an explicit panic is reached only when %q", cl.Text), t)
			fv.kill(e)
			return Value{}
		}
		fv.oblige(e, "panic", x, "explicit panic is unreachable", tFalse)
		fv.kill(e)
		return Value{}
	case "min", "max":
		var ts []Term
		for _, a := range x.Args {
			ts = append(ts, fv.expr(e, a).T)
		}
		r := ts[0]
		for _, t := range ts[1:] {
			if t.Sort != sInt {
				return fv.unknown(rt, name)
			}
			if name == "min" {
				r = ite(le(r, t), r, t)
			} else {
				r = ite(ge(r, t), r, t)
			}
		}
		return Value{K: kScalar, T: r, Type: rt}
	case "clear":
		v := fv.expr(e, x.Args[0])
		fv.havocReachable(e, v)
		return Value{}
	case "print", "println", "recover":
		return fv.freshValue(rt, name)
	}
	return fv.unknown(rt, "builtin "+name)
}

func (fv *FV) allocBound(e *Env, at ast.Node, n Term) {
	if fv.allocLimit.S == "" {
		return
	}
	fv.oblige(e, "alloc", at, "allocation size bounded by input size", le(n, fv.allocLimit))
}

func (fv *FV) appendBuiltin(e *Env, x *ast.CallExpr) Value {
	t := fv.typeOf(x)
	s := fv.expr(e, x.Args[0])
	st, ok := t.Underlying().(*types.Slice)
	if !ok || s.K != kSlice {
		for _, a := range x.Args[1:] {
			fv.expr(e, a)
		}
		return fv.unknown(t, "append")
	}
	var vals []Value
	for _, a := range x.Args[1:] {
		vals = append(vals, fv.expr(e, a))
	}
	if fv.spec != nil {
		return fv.unknown(t, "append in spec")
	}
	elem := st.Elem()
	k, es := sortOf(elem)
	if x.Ellipsis.IsValid() {
		// append(s, xs...)
		xs := vals[0]
		r := fv.allocRef(e, "app")
		n := s.Len
		if xs.K == kSlice {
			n = add(s.Len, xs.Len)
		} else {
			fv.s.declFun("str_len", []string{sStr}, sInt)
			n = add(s.Len, app(sInt, "str_len", xs.T))
		}
		c := fv.s.freshConst("cap", sInt)
		fv.s.assume(le(n, c))
		if k == kScalar && !isObjectType(elem) && xs.K == kSlice {
			comp := "E$" + sanitize(elemKey(elem))
			a := fv.heapGet(e, comp, cellSort([]string{sRef, sInt}, es))
			inner := fv.s.freshConst("appelems", arrSort(sInt, es))
			oldS, oldX := sel(a, s.T), sel(a, xs.T)
			fv.s.assume(Term{fmt.Sprintf("(forall ((i Int)) (! (and (=> (and (<= 0 i) (< i %s)) (= (select %s i) (select %s (+ %s i)))) (=> (and (<= %s i) (< i %s)) (= (select %s i) (select %s (+ %s (- i %s)))))) :pattern ((select %s i))))",
				s.Len.S, inner.S, oldS.S, s.Off.S, s.Len.S, n.S, inner.S, oldX.S, xs.Off.S, s.Len.S, inner.S), sBool})
			nn := fv.s.freshConst(comp, a.Sort)
			fv.s.assume(eq(nn, store(a, r, inner)))
			fv.heapSet(e, comp, nn)
		} else {
			fv.note("append with spread of non-scalar elements: contents abstracted")
		}
		// Go: appending no elements to a nil slice yields nil (append([]byte(nil), empty...) == nil)
		rT := ite(and(eq(s.T, tNull), eq(n, intLit(0))), tNull, r)
		return Value{K: kSlice, T: rT, Off: intLit(0), Len: n, Cap: c, Type: t}
	}
	r := fv.allocRef(e, "app")
	n := add(s.Len, intLit(int64(len(vals))))
	c := fv.s.freshConst("cap", sInt)
	fv.s.assume(le(n, c))
	if isObjectType(elem) {
		// the new backing array holds copies of the existing elements, then the new ones
		fv.copyElemPrefix(e, elem, r, s)
		for i, v := range vals {
			fv.copyObject(e, fv.elemAddr(elem, r, add(s.Len, intLit(int64(i)))), v.T, elem)
		}
		return Value{K: kSlice, T: r, Off: intLit(0), Len: n, Cap: c, Type: t}
	}
	if k == kSlice {
		fv.note("append on slice-of-slices: contents abstracted")
		return Value{K: kSlice, T: r, Off: intLit(0), Len: n, Cap: c, Type: t}
	}
	comp := "E$" + sanitize(elemKey(elem))
	a := fv.heapGet(e, comp, cellSort([]string{sRef, sInt}, es))
	var inner Term
	if s.Off.S == "0" {
		inner = sel(a, s.T)
	} else {
		inner = fv.s.freshConst("appelems", arrSort(sInt, es))
		old := sel(a, s.T)
		fv.s.assume(Term{fmt.Sprintf("(forall ((i Int)) (! (=> (and (<= 0 i) (< i %s)) (= (select %s i) (select %s (+ %s i)))) :pattern ((select %s i))))",
			s.Len.S, inner.S, old.S, s.Off.S, inner.S), sBool})
	}
	for i, v := range vals {
		if v.T.Sort != es {
			v = fv.coerce(v, es)
		}
		inner = store(inner, add(s.Len, intLit(int64(i))), v.T)
	}
	nn := fv.s.freshConst(comp, a.Sort)
	fv.s.assume(eq(nn, store(a, r, inner)))
	fv.heapSet(e, comp, nn)
	// appended values leave their variables (they are now stored in an array)
	for _, v := range vals {
		fv.escape(e, v)
	}
	fv.markPrivate(e, r, elem)
	return Value{K: kSlice, T: r, Off: intLit(0), Len: n, Cap: c, Type: t}
}

func (fv *FV) copyBuiltin(e *Env, x *ast.CallExpr, dst, src Value, rt types.Type) Value {
	if dst.K != kSlice {
		return fv.unknown(rt, "copy")
	}
	var srcLen Term
	if src.K == kSlice {
		srcLen = src.Len
	} else {
		fv.s.declFun("str_len", []string{sStr}, sInt)
		srcLen = app(sInt, "str_len", src.T)
	}
	n := ite(le(dst.Len, srcLen), dst.Len, srcLen)
	dt, _ := fv.typeOf(x.Args[0]).Underlying().(*types.Slice)
	if dt == nil {
		return fv.unknown(rt, "copy")
	}
	k, es := sortOf(dt.Elem())
	if k != kScalar || isObjectType(dt.Elem()) || src.K != kSlice {
		fv.havocSliceElems(e, dst, dt.Elem())
		return Value{K: kScalar, T: n, Type: rt}
	}
	comp := "E$" + sanitize(elemKey(dt.Elem()))
	a := fv.heapGet(e, comp, cellSort([]string{sRef, sInt}, es))
	inner := fv.s.freshConst("cpelems", arrSort(sInt, es))
	oldD, oldS := sel(a, dst.T), sel(a, src.T)
	fv.s.assume(Term{fmt.Sprintf("(forall ((i Int)) (! (= (select %s i) (ite (and (<= %s i) (< i (+ %s %s))) (select %s (+ %s (- i %s))) (select %s i))) :pattern ((select %s i))))",
		inner.S, dst.Off.S, dst.Off.S, n.S, oldS.S, src.Off.S, dst.Off.S, oldD.S, inner.S), sBool})
	nn := fv.s.freshConst(comp, a.Sort)
	fv.s.assume(eq(nn, store(a, dst.T, inner)))
	fv.heapSet(e, comp, nn)
	return Value{K: kScalar, T: n, Type: rt}
}

// ---------------------------------------------------------------------------
// Contracts at call sites.

func (fv *FV) bindParams(u *FuncUnit, recv *Value, args []Value) map[types.Object]Value {
	sig := u.Fn.Type().(*types.Signature)
	bind := map[types.Object]Value{}
	if u.stubSig != nil {
		// contract on an interface method: clauses name the stub's parameters (receiver first)
		ps := u.stubSig.Params()
		if recv != nil {
			rv := *recv
			rv.Type = ps.At(0).Type()
			bind[ps.At(0)] = rv
		}
		for i := 0; i+1 < ps.Len() && i < len(args); i++ {
			v := args[i]
			if _, isIface := ps.At(i+1).Type().Underlying().(*types.Interface); isIface && v.Type != nil {
				v.ArgType = v.Type
			}
			v.Type = ps.At(i+1).Type()
			bind[ps.At(i+1)] = v
		}
		return bind
	}
	if sig.Recv() != nil && recv != nil {
		bind[sig.Recv()] = *recv
	}
	for i := 0; i < sig.Params().Len() && i < len(args); i++ {
		v := args[i]
		if _, isIface := sig.Params().At(i).Type().Underlying().(*types.Interface); isIface && v.Type != nil {
			v.ArgType = v.Type
		}
		v.Type = sig.Params().At(i).Type()
		bind[sig.Params().At(i)] = v
	}
	return bind
}

func (fv *FV) applyContract(e *Env, x *ast.CallExpr, u *FuncUnit, recv *Value, args []Value, rt types.Type) Value {
	c := u.C
	c.Used = true
	fv.calleesUsed[u.Name()] = true
	if c.Trusted {
		fv.trustedUsed["trusted contract (body not verified): "+u.Name()] = true
	}
	sig := u.Fn.Type().(*types.Signature)
	bind := fv.bindParams(u, recv, args)
	pre := e.clone()
	for _, cl := range c.Requires {
		t := fv.specTermO(e, cl, &specCtx{old: pre, bind: bind})
		if fv.spec == nil && fv.u != nil && fv.u.C != nil && matchAny(fv.u.C.AssumePre, u.Name()) {
			fv.assumptionsUsed["precondition of "+u.Name()+" ASSUMED (not proved) at its call sites in "+fv.u.Name()+": "+cl.Text] = true
			fv.assume(e, t)
			continue
		}
		fv.obligeNamed(e, "pre", fmt.Sprintf("pre:%s.%s#%d", u.Name(), cl.Label, fv.siteOrd(u.Name()+cl.Label)), x,
			fmt.Sprintf("precondition of %s: %s", u.Name(), cl.Text), t)
		fv.assume(e, t)
	}
	// frame
	switch {
	case c.Pure:
	case c.HasMod && len(c.Modifies) == 0:
		fv.havocAlloc(e)
	case c.HasMod:
		for _, cl := range c.Modifies {
			fv.havocLocation(e, pre, cl, bind)
		}
		fv.havocAlloc(e)
	default:
		// no modifies clause: everything may change, except the ghost call
		// counters the callee provably cannot bump (static call-graph analysis)
		savedKeep := fv.keepCounters
		if len(fv.eng.bumpRe) > 0 {
			fv.keepCounters = fv.eng.bumpSetInner(u.Fn)
		}
		fv.havocAll(e)
		fv.keepCounters = savedKeep
	}
	// results
	var results []Value
	res := sig.Results()
	for i := 0; i < res.Len(); i++ {
		rv := fv.freshValue(res.At(i).Type(), "r$"+u.Fn.Name())
		fv.assumeAllocated(e, rv)
		results = append(results, rv)
		if res.At(i).Name() != "" {
			bind[res.At(i)] = rv
		}
		if u.stubSig != nil && u.stubSig.Results().At(i).Name() != "" {
			bind[u.stubSig.Results().At(i)] = rv
		}
	}
	for _, cl := range c.Ensures {
		t := fv.specTermA(e, cl, &specCtx{old: pre, bind: bind, results: results, preAlloc: pre.alloc})
		fv.assume(e, t)
	}
	for _, cl := range c.Stable {
		fv.assume(e, fv.specTermA(e, cl, &specCtx{old: pre, bind: bind, results: results, preAlloc: pre.alloc}))
	}
	for _, cl := range c.EnsuresTrusted {
		fv.assume(e, fv.specTermA(e, cl, &specCtx{old: pre, bind: bind, results: results, preAlloc: pre.alloc}))
		fv.trustedUsed["assumed postcondition (ensures-trusted, not checked against the body) of "+u.Name()+": "+cl.Text] = true
	}
	for _, cl := range c.Defines {
		t := fv.specTermA(e, cl, &specCtx{old: pre, bind: bind, results: results, preAlloc: pre.alloc})
		fv.assume(e, t)
		fv.trustedUsed["definitional predicate (\"the deterministic check accepts\") introduced by "+u.Name()+": "+cl.Text] = true
	}
	// ghost call counters also count calls of contracted callees - unless the
	// contract itself accounts for the counter (names it in a modifies clause)
	var rv Value
	switch len(results) {
	case 0:
	case 1:
		rv = results[0]
	default:
		rv = Value{K: kTuple, Tuple: results, Type: rt}
	}
	if bs := fv.eng.bumpsOf(u.Fn); len(bs) > 0 {
		own := false
		for _, b := range bs {
			short := b.name[strings.LastIndex(b.name, ".")+1:]
			for _, cl := range c.Modifies {
				if strings.Contains(cl.Text, short) {
					own = true
				}
			}
		}
		if !own {
			fv.applyBumps(e, u.Fn, rv)
		}
	}
	return rv
}

// clauseLocal resolves a gh_local[T]("name") call of the clause being evaluated.
func (fv *FV) clauseLocal(c *ast.CallExpr) *types.Var {
	if fv.spec == nil || fv.spec.cl == nil || len(c.Args) != 1 {
		return nil
	}
	fun := ast.Unparen(c.Fun)
	if ix, ok := fun.(*ast.IndexExpr); ok {
		fun = ix.X
	}
	if id, ok := fun.(*ast.Ident); !ok || id.Name != "gh_local" {
		return nil
	}
	lit, ok := ast.Unparen(c.Args[0]).(*ast.BasicLit)
	if !ok {
		return nil
	}
	name, err := strconv.Unquote(lit.Value)
	if err != nil {
		return nil
	}
	return fv.spec.cl.Locals[name]
}

func (fv *FV) siteOrd(key string) int {
	fv.siteCount[key]++
	return fv.siteCount[key]
}

// havocLocation forgets the contents of one `modifies` location, evaluated in
// the pre-state.
func (fv *FV) havocLocation(e, pre *Env, cl *Clause, bind map[types.Object]Value) {
	locs := fv.modLocations(pre, cl, bind)
	for _, l := range locs {
		switch l.kind {
		case "object":
			fv.havocObject(e, l.ref, l.typ)
		case "cell":
			if l.sort != "" {
				fv.storeComp(e, l.comp, l.sort, fv.s.freshConst("hv", l.sort), l.ref)
			} else {
				fv.havocCell(e, l.comp, l.typ, l.ref)
			}
		case "comp":
			for _, c := range cellComps(l.comp, l.typ) {
				fv.havocComp(e, c)
			}
		case "elems":
			fv.havocSliceElems(e, l.slice, l.typ)
			if _, used := fv.compSort[ordDetComp]; used {
				// a callee that may write the elements may also have re-ordered them
				fv.storeComp(e, ordDetComp, sBool, fv.s.freshConst("ord", sBool), l.slice.T)
			}
		case "map":
			fv.havocMap(e, l.ref, l.typ.Underlying().(*types.Map))
		default:
			fv.havocAll(e)
		}
	}
}

type modLoc struct {
	sort  string
	kind  string
	ref   Term
	typ   types.Type
	comp  string
	slice Value
}

func (fv *FV) modLocations(pre *Env, cl *Clause, bind map[types.Object]Value) []modLoc {
	if cl.Expr == nil {
		return []modLoc{{kind: "all"}}
	}
	savedInfo, savedSpec := fv.info, fv.spec
	fv.info = cl.Info
	fv.spec = &specCtx{old: pre, bind: bind}
	defer func() { fv.info, fv.spec = savedInfo, savedSpec }()
	x := ast.Unparen(cl.Expr)
	t := cl.Info.Types[x].Type
	if t == nil {
		return []modLoc{{kind: "all"}}
	}
	if call, ok := x.(*ast.CallExpr); ok {
		if fn, _, _ := fv.calleeOf(call); fn != nil && fn.Name() == "gh_kvState" {
			// the ghost consensus state tree (T-KV)
			return []modLoc{
				{kind: "cell", comp: kvDom, ref: tNull, sort: arrSort(sInt, sBool)},
				{kind: "cell", comp: kvVal, ref: tNull, sort: arrSort(sInt, sInt)},
				{kind: "cell", comp: kvWrites, ref: tNull, sort: sInt},
				{kind: "cell", comp: treeWritesComp(), ref: tNull, sort: arrSort(sRef, sInt)},
			}
		}
		if fn, _, _ := fv.calleeOf(call); fn != nil && fn.Name() == "gh_hdr" && len(call.Args) == 1 {
			// modifies hdr(x): the slice header stored at location x, not the elements
			lv := fv.lvalue(pre, call.Args[0])
			if lv.kind == lvCell && len(lv.idx) == 1 {
				return []modLoc{{kind: "cell", comp: lv.comp, ref: lv.idx[0], typ: lv.typ}}
			}
			return []modLoc{{kind: "all"}}
		}
		if fn, _, _ := fv.calleeOf(call); fn != nil && fn.Name() == "gh_anyOf" && len(call.Args) == 1 {
			// modifies anyOf(x.f): field f of any object (whole component)
			lv := fv.lvalue(pre, call.Args[0])
			if lv.kind == lvCell {
				return []modLoc{{kind: "comp", comp: lv.comp, typ: lv.typ}}
			}
			return []modLoc{{kind: "all"}}
		}
	}
	if _, isIdent := x.(*ast.Ident); isIdent && isInterfaceType(t) {
		// modifies <interface-typed parameter>: use the static type of the actual argument
		v := fv.expr(pre, x)
		if v.ArgType != nil {
			if p, ok := v.ArgType.Underlying().(*types.Pointer); ok && isObjectType(p.Elem()) {
				return []modLoc{{kind: "object", ref: v.T, typ: p.Elem()}}
			}
		}
		return []modLoc{{kind: "all"}}
	}
	if fv.isGhostMapExpr(x) {
		lv := fv.lvalue(pre, x)
		if lv.kind == lvCell && len(lv.idx) == 1 {
			return []modLoc{{kind: "cell", comp: lv.comp, ref: lv.idx[0], typ: lv.typ, sort: lv.sort}}
		}
		return []modLoc{{kind: "all"}}
	}
	// pointer to object / object value
	if isObjectType(deref(t)) {
		v := fv.expr(pre, x)
		return []modLoc{{kind: "object", ref: v.T, typ: deref(t)}}
	}
	switch u := t.Underlying().(type) {
	case *types.Slice:
		v := fv.expr(pre, x)
		if v.K == kSlice {
			out := []modLoc{{kind: "elems", slice: v, typ: u.Elem()}}
			// a slice-typed location (field, *p): the header may change as well
			switch ast.Unparen(x).(type) {
			case *ast.SelectorExpr, *ast.StarExpr:
				if lv := fv.lvalue(pre, x); lv.kind == lvCell && len(lv.idx) == 1 {
					out = append(out, modLoc{kind: "cell", comp: lv.comp, ref: lv.idx[0], typ: lv.typ})
				}
			}
			return out
		}
	case *types.Map:
		v := fv.expr(pre, x)
		return []modLoc{{kind: "map", ref: v.T, typ: t}}
	}
	lv := fv.lvalue(pre, x)
	if lv.kind == lvCell && len(lv.idx) == 1 {
		return []modLoc{{kind: "cell", comp: lv.comp, ref: lv.idx[0], typ: lv.typ}}
	}
	return []modLoc{{kind: "all"}}
}

// ---------------------------------------------------------------------------
// copyElemPrefix: after append on a slice of structs the fresh backing array r
// holds, at index i < len(s), a field-wise copy of s[i]. Every leaf component
// is replaced by a new array that agrees with the old one outside r and with
// the source elements inside the copied prefix.
func (fv *FV) copyElemPrefix(e *Env, elem types.Type, r Term, s Value) {
	if e.dead {
		return
	}
	iv := Term{"i!cp", sInt}
	dst0 := fv.elemAddr(elem, r, iv)
	src0 := fv.elemAddr(elem, s.T, add(s.Off, iv))
	var walk func(t types.Type, dst, src Term)
	copyComp := func(comp, sort string, dst, src Term) {
		old := fv.heapGet(e, comp, arrSort(sRef, sort))
		nn := fv.s.freshConst(comp, old.Sort)
		fv.s.assume(Term{fmt.Sprintf("(forall ((x Ref)) (! (=> (not (= (root x) %s)) (= (select %s x) (select %s x))) :pattern ((select %s x))))", r.S, nn.S, old.S, nn.S), sBool})
		fv.s.assume(Term{fmt.Sprintf("(forall ((i!cp Int)) (! (=> (and (<= 0 i!cp) (< i!cp %s)) (= (select %s %s) (select %s %s))) :pattern (%s)))", s.Len.S, nn.S, dst.S, old.S, src.S, dst0.S), sBool})
		fv.heapSet(e, comp, nn)
	}
	walk = func(t types.Type, dst, src Term) {
		if isBigInt(t) {
			copyComp("bigval", sInt, dst, src)
			return
		}
		if a, ok := objArray(t); ok {
			for i := int64(0); i < a.Len(); i++ {
				walk(a.Elem(), fv.elemAddr(a.Elem(), dst, intLit(i)), fv.elemAddr(a.Elem(), src, intLit(i)))
			}
			return
		}
		st := structOf(t)
		if st == nil {
			return
		}
		for i := 0; i < st.NumFields(); i++ {
			f := st.Field(i)
			if isObjectType(f.Type()) {
				walk(f.Type(), fv.fieldAddr(t, f, dst), fv.fieldAddr(t, f, src))
				continue
			}
			k, srt := sortOf(f.Type())
			comp := fieldComp(t, f)
			if k == kSlice {
				copyComp(comp+"#arr", sRef, dst, src)
				copyComp(comp+"#off", sInt, dst, src)
				copyComp(comp+"#len", sInt, dst, src)
				copyComp(comp+"#cap", sInt, dst, src)
				continue
			}
			copyComp(comp, srt, dst, src)
		}
	}
	walk(elem, dst0, src0)
}

// closureAcc records a function literal with a checked `closure N accepts P` clause.
type closureAcc struct {
	lit *ast.FuncLit
	cl  *Clause
	env *Env
}

// probeClosure checks `closure N accepts P`: the literal's body is executed
// once with unconstrained arguments in a copy of the defining environment;
// every return with a nil error must satisfy P.
func (fv *FV) probeClosure(e *Env, lit *ast.FuncLit, cl *Clause, ref Term) {
	sig, _ := fv.typeOf(lit).(*types.Signature)
	if sig == nil || sig.Results().Len() == 0 {
		fv.specErr("closure accepts: literal returns nothing")
		return
	}
	fv.closureAccs[ref.S] = &closureAcc{lit: lit, cl: cl, env: e.clone()}
	pe := e.clone()
	bind := map[types.Object]Value{}
	for i := 0; i < sig.Params().Len(); i++ {
		p := sig.Params().At(i)
		v := fv.freshValue(p.Type(), "clarg$"+p.Name())
		fv.defineVar(pe, p, v, false)
		bind[p] = v
	}
	saved, savedFrames := fv.inlineRet, fv.frames
	fv.frames = nil
	ctx := &inlineCtx{sig: sig}
	fv.inlineRet = ctx
	fv.inlineDepth++
	fv.block(pe, lit.Body.List)
	fv.inlineDepth--
	fv.inlineRet, fv.frames = saved, savedFrames
	last := sig.Results().Len() - 1
	for k, ex := range ctx.exits {
		if last >= len(ex.results) {
			continue
		}
		ok := eq(ex.results[last].T, tNull)
		p := fv.specTermO(ex.env, cl, &specCtx{old: e, bind: bind, preAlloc: e.alloc})
		fv.obligeNamed(ex.env, "closure", fmt.Sprintf("%s@return%d", cl.Label, k+1), lit,
			fmt.Sprintf("function literal returns a nil error only if %q", cl.Text), implies(ok, p))
	}
	if !pe.dead && sig.Results().Len() > 0 {
		fv.specErr("closure accepts: literal body can fall off its end")
	}
}

const chanSendsComp = "ghost$chanSends"

// probeClosureBody serves `closure N checked`: the literal is handed to a
// callee that may invoke it any number of times later, so its body is executed
// once with unconstrained arguments in a copy of the defining environment whose
// heap has been forgotten (locals captured by value keep their value, boxed
// ones are in the forgotten heap). Whatever obligations the body generates -
// call-site `precall` clauses, safety - are obligations of the function.
func (fv *FV) probeClosureBody(e *Env, lit *ast.FuncLit) {
	sig, _ := fv.typeOf(lit).(*types.Signature)
	if sig == nil {
		return
	}
	fv.siteCount[fmt.Sprintf("closureprobe%d", funcLitOrd(fv.u.Decl, lit))]++
	pe := e.clone()
	fv.havocAll(pe)
	for i := 0; i < sig.Params().Len(); i++ {
		p := sig.Params().At(i)
		fv.defineVar(pe, p, fv.freshValue(p.Type(), "clarg$"+p.Name()), false)
	}
	for i := 0; i < sig.Results().Len(); i++ {
		if r := sig.Results().At(i); r.Name() != "" {
			fv.defineVar(pe, r, fv.zeroValue(pe, r.Type()), true)
		}
	}
	entry := pe.clone()
	saved, savedFrames := fv.inlineRet, fv.frames
	fv.frames = nil
	ctx := &inlineCtx{sig: sig}
	fv.inlineRet = ctx
	fv.inlineDepth++
	fv.block(pe, lit.Body.List)
	fv.inlineDepth--
	fv.inlineRet, fv.frames = saved, savedFrames
	// `closure N ensures P`: P at every exit of the body (returns and the end of the body)
	cls := fv.u.C.ClosureEnsures[funcLitOrd(fv.u.Decl, lit)]
	if len(cls) == 0 {
		return
	}
	var exits []*Env
	for _, ex := range ctx.exits {
		exits = append(exits, ex.env)
	}
	if !pe.dead {
		exits = append(exits, pe)
	}
	for _, cl := range cls {
		for k, ex := range exits {
			p := fv.specTermO(ex, cl, &specCtx{old: entry, preAlloc: entry.alloc, lenient: true})
			fv.obligeNamed(ex, "closure", fmt.Sprintf("%s@exit%d", cl.Label, k+1), lit,
				fmt.Sprintf("at every exit of the function literal: %q", cl.Text), p)
		}
	}
}

// fnAcceptsTerm is the predicate "calling function value f with args returns a
// nil error" (same symbol as ufb("fnAccepts", f, args...) in contracts).
func (fv *FV) fnAcceptsTerm(e *Env, f Value, args []Value) Term {
	vals := append([]Value{f}, args...)
	ts, sorts := fv.ufArgs(e, vals)
	name := "uf$fnAccepts$" + sanitize(strings.Join(sorts, "_"))
	fv.s.declFun(name, sorts, sBool)
	t := app(sBool, name, ts...)
	fv.instantiateAccepts(f, args, t)
	return t
}

// instantiateAccepts: if f is a function literal with a checked accepts clause,
// fnAccepts(f, args) implies the clause for these arguments.
func (fv *FV) instantiateAccepts(f Value, args []Value, t Term) {
	acc := fv.closureAccs[f.T.S]
	if acc == nil {
		return
	}
	var sig *types.Signature
	if tv, ok := fv.u.Pkg.TypesInfo.Types[acc.lit]; ok {
		sig, _ = tv.Type.(*types.Signature)
	}
	if sig == nil || sig.Params().Len() != len(args) {
		return
	}
	bind := map[types.Object]Value{}
	for i := 0; i < sig.Params().Len(); i++ {
		bind[sig.Params().At(i)] = args[i]
	}
	savedSpec, savedInfo := fv.spec, fv.info
	p := fv.specTermA(acc.env, acc.cl, &specCtx{old: acc.env, bind: bind, preAlloc: acc.env.alloc})
	fv.spec, fv.info = savedSpec, savedInfo
	fv.s.assume(implies(t, p))
	fv.trustedUsed["captured variables of a function literal with an accepts clause keep the value they had when the literal was created"] = true
}

// Inlined closures.

func (fv *FV) inlineLit(e *Env, lit *ast.FuncLit, args []Value) Value {
	sig, _ := fv.typeOf(lit).(*types.Signature)
	if sig == nil || fv.inlineDepth > 3 {
		fv.havocAll(e)
		return fv.unknown(nil, "closure call")
	}
	for i := 0; i < sig.Params().Len() && i < len(args); i++ {
		fv.defineVar(e, sig.Params().At(i), args[i], false)
	}
	for i := 0; i < sig.Results().Len(); i++ {
		if r := sig.Results().At(i); r.Name() != "" {
			fv.defineVar(e, r, fv.zeroValue(e, r.Type()), true)
		}
	}
	saved := fv.inlineRet
	savedFrames := fv.frames
	fv.frames = nil
	ctx := &inlineCtx{sig: sig}
	fv.inlineRet = ctx
	fv.inlineDepth++
	fv.block(e, lit.Body.List)
	fv.inlineDepth--
	fv.inlineRet = saved
	fv.frames = savedFrames
	// merge exits (and fallthrough end of body)
	envs := []*Env{}
	var resTerms [][]Value
	if !e.dead {
		envs = append(envs, e.clone())
		var zs []Value
		for i := 0; i < sig.Results().Len(); i++ {
			zs = append(zs, fv.zeroValue(e, sig.Results().At(i).Type()))
		}
		resTerms = append(resTerms, zs)
	}
	for _, ex := range ctx.exits {
		envs = append(envs, ex.env)
		resTerms = append(resTerms, ex.results)
	}
	if len(envs) == 0 {
		fv.kill(e)
		return fv.freshValue(sig.Results(), "dead")
	}
	// results: merge through guarded fresh values
	var results []Value
	for i := 0; i < sig.Results().Len(); i++ {
		rt := sig.Results().At(i).Type()
		rv := fv.freshValue(rt, "cl")
		for j, en := range envs {
			if i < len(resTerms[j]) {
				fv.s.assume(implies(en.pc, fv.valueEq(rv, resTerms[j][i])))
			}
		}
		results = append(results, rv)
	}
	*e = *fv.mergeEnvs(envs)
	switch len(results) {
	case 0:
		return Value{}
	case 1:
		return results[0]
	}
	return Value{K: kTuple, Tuple: results}
}

// ---------------------------------------------------------------------------
// Ghost builtins (contract language).

func (fv *FV) strArg(x ast.Expr) string {
	if tv, ok := fv.info.Types[x]; ok && tv.Value != nil && tv.Value.Kind() == constant.String {
		return constant.StringVal(tv.Value)
	}
	return "?"
}

func (fv *FV) ghostBuiltin(e *Env, x *ast.CallExpr, fn *types.Func) Value {
	rt := fv.typeOf(x)
	name := fn.Name()
	if fv.spec == nil {
		fv.note("ghost builtin %s used in code?", name)
		return fv.unknown(rt, name)
	}
	switch name {
	case "gh_old":
		if fv.spec.old == nil {
			fv.specErr("old() not available here")
			return fv.expr(e, x.Args[0])
		}
		return fv.expr(fv.spec.old, x.Args[0])
	case "gh_implies":
		return Value{K: kScalar, T: implies(fv.expr(e, x.Args[0]).T, fv.expr(e, x.Args[1]).T)}
	case "gh_ite":
		c := fv.expr(e, x.Args[0]).T
		a, b := fv.expr(e, x.Args[1]), fv.expr(e, x.Args[2])
		if a.K == kScalar && b.K == kScalar && a.T.Sort == b.T.Sort {
			return Value{K: kScalar, T: ite(c, a.T, b.T), Type: rt}
		}
	case "gh_forall", "gh_exists":
		lit, ok := x.Args[0].(*ast.FuncLit)
		if !ok {
			break
		}
		var binders []string
		saved := fv.spec.bind
		nb := map[types.Object]Value{}
		for k, v := range saved {
			nb[k] = v
		}
		var guards []Term
		for _, f := range lit.Type.Params.List {
			for _, n := range f.Names {
				obj := fv.info.Defs[n]
				k, s := sortOf(obj.Type())
				if k != kScalar {
					fv.specErr("quantified variable of non-scalar type")
					s = sRef
				}
				fv.quantN++
				qn := fmt.Sprintf("%s!q%d", sanitize(n.Name), fv.quantN)
				fv.quantSorts[qn] = s
				binders = append(binders, fmt.Sprintf("(%s %s)", qn, s))
				nb[obj] = Value{K: kScalar, T: Term{qn, s}, Type: obj.Type()}
				// named (non-int) machine types keep their range: e.g. uint64 bound vars
				// bound variables of machine integer types range over all mathematical
				// integers (both when a quantified fact is proved and when it is assumed)
			}
		}
		fv.spec.bind = nb
		ret, ok := lit.Body.List[0].(*ast.ReturnStmt)
		var body Term
		if ok {
			body = fv.expr(e, ret.Results[0]).T
		} else {
			body = tTrue
		}
		fv.spec.bind = saved
		q := "forall"
		g := and(guards...)
		if name == "gh_exists" {
			q = "exists"
			body = and(g, body)
		} else {
			body = implies(g, body)
		}
		return Value{K: kScalar, T: Term{fmt.Sprintf("(%s (%s) %s)", q, strings.Join(binders, " "), body.S), sBool}}
	case "gh_bigval":
		v := fv.expr(e, x.Args[0])
		return Value{K: kScalar, T: fv.loadComp(e, "bigval", sInt, v.T)}
	case "gh_fresh":
		v := fv.expr(e, x.Args[0])
		pa := fv.spec.preAlloc
		if pa.S == "" && fv.spec.old != nil {
			pa = fv.spec.old.alloc
		}
		fv.s.declFun("akind", []string{sRef}, sInt)
		return Value{K: kScalar, T: and(not(eq(v.T, tNull)), not(sel(pa, v.T)), eq(fv.rootOf(v.T), v.T), eq(app(sInt, "akind", v.T), intLit(0)), sel(e.alloc, v.T))}
	case "gh_allocated":
		v := fv.expr(e, x.Args[0])
		return Value{K: kScalar, T: or(eq(v.T, tNull), sel(e.alloc, fv.rootOf(v.T)))}
	case "gh_typeIs":
		v := fv.expr(e, x.Args[0])
		inst := fv.info.Instances[identOf(ast.Unparen(x.Fun).(*ast.IndexExpr).X)]
		if inst.TypeArgs != nil && inst.TypeArgs.Len() == 1 {
			return Value{K: kScalar, T: and(not(eq(v.T, tNull)), eq(fv.dynOf(v.T), fv.dynTag(inst.TypeArgs.At(0))))}
		}
	case "gh_result":
		i := 0
		if tv, ok := fv.info.Types[x.Args[0]]; ok && tv.Value != nil {
			n, _ := constant.Int64Val(tv.Value)
			i = int(n)
		}
		if i < len(fv.spec.results) {
			return fv.spec.results[i]
		}
		fv.specErr("result not available here")
	case "gh_idx":
		if n := len(e.loopIdx); n > 0 {
			return Value{K: kScalar, T: e.loopIdx[n-1]}
		}
		fv.specErr("idx() outside loop")
	case "gh_visited":
		k := fv.expr(e, x.Args[0])
		if n := len(e.visited); n > 0 {
			return Value{K: kScalar, T: sel(e.visited[n-1], k.T)}
		}
		fv.specErr("visited() outside map range")
	case "gh_inDom":
		if lm, ok := fv.localMapOf(e, x.Args[0]); ok {
			k := fv.expr(e, x.Args[1])
			return Value{K: kScalar, T: sel(lm.T, k.T)}
		}
		m := fv.expr(e, x.Args[0])
		k := fv.expr(e, x.Args[1])
		if mt, ok := fv.typeOf(x.Args[0]).Underlying().(*types.Map); ok {
			return Value{K: kScalar, T: and(not(eq(m.T, tNull)), sel(fv.mapDom(e, m.T, mt), k.T))}
		}
	case "gh_mapLen":
		if lm, ok := fv.localMapOf(e, x.Args[0]); ok {
			return Value{K: kScalar, T: lm.Len}
		}
		m := fv.expr(e, x.Args[0])
		return Value{K: kScalar, T: ite(eq(m.T, tNull), intLit(0), fv.mapLen(e, m.T))}
	case "gh_uf", "gh_ufb", "gh_ufr":
		fname := "uf$" + sanitize(fv.strArg(x.Args[0]))
		var vals []Value
		for _, a := range x.Args[1:] {
			v := fv.expr(e, a)
			if v.Type == nil {
				v.Type = fv.typeOf(a)
			}
			vals = append(vals, v)
		}
		args, sorts := fv.ufArgs(e, vals)
		ret := sInt
		if name == "gh_ufb" {
			ret = sBool
		} else if name == "gh_ufr" {
			if k, srt := sortOf(rt); k == kScalar {
				ret = srt
			} else if k == kSlice && !isByteSlice(rt) {
				sfx := "$" + sanitize(strings.Join(sorts, "_"))
				mk := func(part, r string) Term {
					n := fname + part + sfx
					if len(args) == 0 {
						return fv.s.declConst(n, r)
					}
					fv.s.declFun(n, sorts, r)
					return app(r, n, args...)
				}
				ln := mk(".len", sInt)
				return Value{K: kSlice, T: mk(".arr", sRef), Off: intLit(0), Len: ln, Cap: ln, Type: rt}
			}
		}
		fname += "$" + sanitize(strings.Join(sorts, "_"))
		if len(args) == 0 {
			fv.s.declConst(fname, ret)
			return Value{K: kScalar, T: Term{fname, ret}, Type: rt}
		}
		fv.s.declFun(fname, sorts, ret)
		if name == "gh_ufb" && fv.strArg(x.Args[0]) == "fnAccepts" && len(vals) >= 1 {
			fv.instantiateAccepts(vals[0], vals[1:], app(ret, fname, args...))
		}
		return Value{K: kScalar, T: app(ret, fname, args...), Type: rt}
	case "gh_div":
		return Value{K: kScalar, T: tdiv(fv.expr(e, x.Args[0]).T, fv.expr(e, x.Args[1]).T)}
	case "gh_mod":
		a, b := fv.expr(e, x.Args[0]).T, fv.expr(e, x.Args[1]).T
		return Value{K: kScalar, T: sub(a, mul(b, tdiv(a, b)))}
	case "gh_abs":
		a := fv.expr(e, x.Args[0]).T
		return Value{K: kScalar, T: ite(ge(a, intLit(0)), a, sub(intLit(0), a))}
	case "gh_min":
		a, b := fv.expr(e, x.Args[0]).T, fv.expr(e, x.Args[1]).T
		return Value{K: kScalar, T: ite(le(a, b), a, b)}
	case "gh_max":
		a, b := fv.expr(e, x.Args[0]).T, fv.expr(e, x.Args[1]).T
		return Value{K: kScalar, T: ite(ge(a, b), a, b)}
	case "gh_count":
		return fv.countBuiltin(e, x, rt)
	case "gh_unavail":
		v := fv.expr(e, x.Args[0])
		return Value{K: kScalar, T: fv.errIs(v.T, fv.unavailSentinel())}
	case "gh_errIs":
		a, b := fv.expr(e, x.Args[0]), fv.expr(e, x.Args[1])
		return Value{K: kScalar, T: fv.errIs(a.T, b.T)}
	case "gh_kvHas":
		k := fv.expr(e, x.Args[0])
		return Value{K: kScalar, T: sel(fv.kvDomArr(e), k.T)}
	case "gh_kvVal":
		k := fv.expr(e, x.Args[0])
		return Value{K: kScalar, T: sel(fv.kvValArr(e), k.T)}
	case "gh_kvDomain":
		return Value{K: kScalar, T: fv.kvDomArr(e)}
	case "gh_kvWrites":
		return Value{K: kScalar, T: fv.loadComp(e, kvWrites, sInt, tNull)}
	case "gh_sameVal":
		// sameVal(a, b): two values of a struct type agree field by field (scalar leaves;
		// slices by header, nested objects recursively); for other types plain equality
		a := fv.expr(e, x.Args[0])
		b := fv.expr(e, x.Args[1])
		t := fv.typeOf(x.Args[0])
		if t == nil || !isObjectType(t) {
			return Value{K: kScalar, T: fv.valueEq(a, b)}
		}
		var conj []Term
		var walk func(t types.Type, pa, pb Term)
		walk = func(t types.Type, pa, pb Term) {
			if isBigInt(t) {
				conj = append(conj, eq(fv.loadComp(e, "bigval", sInt, pa), fv.loadComp(e, "bigval", sInt, pb)))
				return
			}
			if arr, ok := objArray(t); ok {
				for i := int64(0); i < arr.Len(); i++ {
					walk(arr.Elem(), fv.elemAddr(arr.Elem(), pa, intLit(i)), fv.elemAddr(arr.Elem(), pb, intLit(i)))
				}
				return
			}
			st := structOf(t)
			if st == nil {
				return
			}
			for i := 0; i < st.NumFields(); i++ {
				f := st.Field(i)
				if isObjectType(f.Type()) {
					walk(f.Type(), fv.fieldAddr(t, f, pa), fv.fieldAddr(t, f, pb))
					continue
				}
				k, srt := sortOf(f.Type())
				comp := fieldComp(t, f)
				if k == kSlice {
					for _, sfx := range []struct{ s, sort string }{{"#arr", sRef}, {"#off", sInt}, {"#len", sInt}} {
						conj = append(conj, eq(fv.loadComp(e, comp+sfx.s, sfx.sort, pa), fv.loadComp(e, comp+sfx.s, sfx.sort, pb)))
					}
					continue
				}
				conj = append(conj, eq(fv.loadComp(e, comp, srt, pa), fv.loadComp(e, comp, srt, pb)))
			}
		}
		walk(t, a.T, b.T)
		return Value{K: kScalar, T: and(conj...)}
	case "gh_chanSends":
		// number of channel sends the function has performed (plain sends and taken send clauses of select statements)
		return Value{K: kScalar, T: fv.loadComp(e, chanSendsComp, sInt, tNull)}
	case "gh_bytesId":
		v := fv.expr(e, x.Args[0])
		return Value{K: kScalar, T: fv.bytesID(e, v)}
	case "gh_keyId":
		// identity of a key slice: that of the keyformat.Encode call that produced it, else of its bytes
		v := fv.expr(e, x.Args[0])
		if id, ok := fv.sliceKeyID[v.T.S]; ok {
			return Value{K: kScalar, T: id}
		}
		return Value{K: kScalar, T: fv.bytesID(e, v)}
	case "gh_keyOf":
		kf := fv.expr(e, x.Args[0])
		var args []Value
		var ats []types.Type
		for _, a := range x.Args[1:] {
			args = append(args, fv.expr(e, a))
			ats = append(ats, nil) // spec passes values, not pointers
		}
		return Value{K: kScalar, T: fv.keyID(e, kf.T, args, ats)}
	case "gh_local":
		// gh_local[T]("x"): the unique local x of a nested block (see checkClause)
		if o := fv.clauseLocal(x); o != nil {
			v, has := fv.lookup(e, o)
			if !has {
				if lv, ok := e.late[o]; ok {
					v, has = lv.val, true
				}
			}
			if has {
				if fv.boxed[o] && v.K == kScalar && v.T.Sort == sRef {
					if _, s := sortOf(o.Type()); s != sRef || fv.isBoxRef(e, o, v) {
						return fv.loadCell(e, boxComp(o.Type()), o.Type(), "", v.T)
					}
				}
				return v
			}
			if fv.spec != nil && fv.spec.lenient {
				return fv.freshValue(o.Type(), "undef$"+o.Name())
			}
			fv.specErr("local " + o.Name() + " has no value here")
			return fv.freshValue(o.Type(), "undef$"+o.Name())
		}
		fv.specErr("gh_local: unknown local")
	case "gh_defined":
		// defined(x): the local x has been assigned on the path reaching this return
		if c, ok := ast.Unparen(x.Args[0]).(*ast.CallExpr); ok {
			if o := fv.clauseLocal(c); o != nil {
				if _, has := fv.lookup(e, o); has {
					return Value{K: kScalar, T: tTrue}
				}
				if lv, ok := e.late[o]; ok {
					return Value{K: kScalar, T: lv.defd}
				}
				return Value{K: kScalar, T: tFalse}
			}
		}
		if id, ok := ast.Unparen(x.Args[0]).(*ast.Ident); ok {
			if o, ok := fv.info.Uses[id].(*types.Var); ok {
				if _, has := fv.lookup(e, o); has {
					return Value{K: kScalar, T: tTrue}
				}
				return Value{K: kScalar, T: tFalse}
			}
		}
		fv.specErr("defined() takes a local variable")
	case "gh_argc":
		// argc(): the number of arguments (receiver excluded) of the call a precall clause guards
		if fv.spec == nil || fv.spec.callArgs == nil {
			fv.specErr("argc: only in precall clauses")
			break
		}
		return Value{K: kScalar, T: intLit(int64(len(fv.spec.callArgs)))}
	case "gh_argIs":
		// argIs(i, v): the i-th argument (0-based) of the call a precall clause guards is v
		iv := fv.expr(e, x.Args[0])
		n, err := strconv.Atoi(iv.T.S)
		if err == nil && fv.spec != nil && fv.spec.callArgs != nil && n >= len(fv.spec.callArgs) {
			return Value{K: kScalar, T: tFalse} // the guarded call has no such argument
		}
		if err != nil || fv.spec == nil || fv.spec.callArgs == nil || n < 0 {
			fv.specErr("argIs: needs a literal index of an argument of the guarded call")
			break
		}
		return Value{K: kScalar, T: fv.valueEq(fv.spec.callArgs[n], fv.expr(e, x.Args[1]))}
	case "gh_argAs":
		// argAs[T](i): the i-th argument (0-based; receiver excluded) of the call a precall clause guards
		iv := fv.expr(e, x.Args[0])
		n, err := strconv.Atoi(iv.T.S)
		if err == nil && fv.spec != nil && fv.spec.callArgs != nil && n >= len(fv.spec.callArgs) {
			// the guarded call has fewer arguments than the clause expects: an unconstrained value (the obligation fails unless it is trivial)
			return fv.freshValue(rt, "noarg")
		}
		if err != nil || fv.spec == nil || fv.spec.callArgs == nil || n < 0 {
			fv.specErr("argAs: needs a literal index of an argument of the guarded call")
			break
		}
		v := fv.spec.callArgs[n]
		v.Type = rt
		return v
	case "gh_btHas", "gh_btNil", "gh_btBytes":
		// ghost view of a btree.Map[string, []byte] (see the library model)
		m := fv.expr(e, x.Args[0])
		k := fv.expr(e, x.Args[1])
		present := sel(fv.loadComp(e, "BT$dom", arrSort(sStr, sBool), m.T), k.T)
		if name == "gh_btHas" {
			return Value{K: kScalar, T: present}
		}
		arr := sel(fv.loadComp(e, "BT$arr", arrSort(sStr, sRef), m.T), k.T)
		off := sel(fv.loadComp(e, "BT$off", arrSort(sStr, sInt), m.T), k.T)
		ln := sel(fv.loadComp(e, "BT$len", arrSort(sStr, sInt), m.T), k.T)
		sv := Value{K: kSlice, T: arr, Off: off, Len: ln, Cap: ln}
		if name == "gh_btNil" {
			return Value{K: kScalar, T: sliceIsNil(sv)}
		}
		return Value{K: kScalar, T: fv.bytesID(e, sv)}
	case "gh_sameRef":
		a, b := fv.expr(e, x.Args[0]), fv.expr(e, x.Args[1])
		return Value{K: kScalar, T: eq(a.T, b.T)}
	case "gh_arrOf":
		v := fv.expr(e, x.Args[0])
		return Value{K: kScalar, T: v.T, Type: rt}
	case "gh_ordDet":
		// the order of the slice's backing array was last established by a sort (library models of sort.Slice, sort.Strings, slices.Sort)
		v := fv.expr(e, x.Args[0])
		if v.K == kSlice {
			// at most one element: only one order exists
			return Value{K: kScalar, T: or(le(v.Len, intLit(1)), fv.loadComp(e, ordDetComp, sBool, v.T)), Type: rt}
		}
		return Value{K: kScalar, T: fv.loadComp(e, ordDetComp, sBool, v.T), Type: rt}
	case "gh_upd":
		m := fv.expr(e, x.Args[0])
		k := fv.expr(e, x.Args[1])
		v := fv.expr(e, x.Args[2])
		return Value{K: kScalar, T: store(m.T, k.T, v.T), Type: rt}
	case "gh_mapEq":
		a, b := fv.expr(e, x.Args[0]), fv.expr(e, x.Args[1])
		if a.T.Sort != b.T.Sort {
			fv.specErr("mapEq on different sorts")
			break
		}
		return Value{K: kScalar, T: eq(a.T, b.T)}
	case "gh_wrote":
		return Value{K: kScalar, T: fv.loadComp(e, "ghost$writes", sInt, tNull)}
	}
	fv.specErr("unsupported ghost builtin " + name)
	return fv.freshValue(rt, name)
}

// inlineGhost expands a user-declared ghost function (single return).
func (fv *FV) inlineGhost(e *Env, x *ast.CallExpr, fn *types.Func) Value {
	g := fv.eng.ghostDecl(fn)
	rt := fv.typeOf(x)
	if g == nil || g.decl.Body == nil || len(g.decl.Body.List) != 1 {
		fv.specErr("ghost function " + fn.Name() + " has no single-return body")
		return fv.freshValue(rt, fn.Name())
	}
	ret, ok := g.decl.Body.List[0].(*ast.ReturnStmt)
	if !ok || len(ret.Results) != 1 {
		fv.specErr("ghost function " + fn.Name() + " body is not a single return")
		return fv.freshValue(rt, fn.Name())
	}
	var args []Value
	for _, a := range x.Args {
		args = append(args, fv.expr(e, a))
	}
	sig := fn.Type().(*types.Signature)
	nb := map[types.Object]Value{}
	for i := 0; i < sig.Params().Len() && i < len(args); i++ {
		nb[sig.Params().At(i)] = args[i]
	}
	savedInfo, savedSpec := fv.info, fv.spec
	ns := &specCtx{bind: nb}
	if savedSpec != nil {
		ns.old, ns.results, ns.preAlloc, ns.facts, ns.lenient = savedSpec.old, savedSpec.results, savedSpec.preAlloc, savedSpec.facts, savedSpec.lenient
	}
	fv.info, fv.spec = g.pkg.TypesInfo, ns
	if fv.ghostDepth > 20 {
		fv.specErr("ghost function recursion too deep: " + fn.Name())
		fv.info, fv.spec = savedInfo, savedSpec
		return fv.freshValue(rt, fn.Name())
	}
	fv.ghostDepth++
	v := fv.expr(e, ret.Results[0])
	fv.ghostDepth--
	fv.info, fv.spec = savedInfo, savedSpec
	return v
}

// specPureCall allows a few side-effect free library calls inside contracts.
func (fv *FV) specPureCall(e *Env, x *ast.CallExpr, fn *types.Func, recvX ast.Expr) (Value, bool) {
	switch fn.FullName() {
	case "bytes.Equal":
		a, b := fv.expr(e, x.Args[0]), fv.expr(e, x.Args[1])
		return Value{K: kScalar, T: eq(fv.bytesID(e, a), fv.bytesID(e, b))}, true
	}
	return Value{}, false
}

func (fv *FV) bytesEq(e1 *Env, a Value, e2 *Env, b Value) Term {
	bs := arrSort(sInt, sInt)
	fv.s.declFun("bytes_eq", []string{bs, sInt, sInt, bs, sInt, sInt}, sBool)
	fv.s.axiom("bytes_eq_refl", fmt.Sprintf("(forall ((a %s) (o Int) (n Int)) (! (bytes_eq a o n a o n) :pattern ((bytes_eq a o n a o n))))", bs))
	fv.s.axiom("bytes_eq_len", fmt.Sprintf("(forall ((a %s) (o Int) (n Int) (b %s) (p Int) (m Int)) (! (=> (bytes_eq a o n b p m) (= n m)) :pattern ((bytes_eq a o n b p m))))", bs, bs))
	return app(sBool, "bytes_eq", fv.sliceInner(e1, a, sInt), a.Off, a.Len, fv.sliceInner(e2, b, sInt), b.Off, b.Len)
}

var _ = token.NoPos

// errIs is the errors.Is relation (uninterpreted, closed under wrapping by the
// models of fmt.Errorf / errors.WithContext).
func (fv *FV) errIs(a, b Term) Term {
	fv.s.declFun("err_is", []string{sRef, sRef}, sBool)
	fv.s.axiom("err_is_refl", "(forall ((a Ref)) (! (=> (not (= a null)) (err_is a a)) :pattern ((err_is a a))))")
	fv.s.axiom("err_is_nil", "(forall ((t Ref)) (! (not (err_is null t)) :pattern ((err_is null t))))")
	return app(sBool, "err_is", a, b)
}

// unavailSentinel stands for the unavailable-state error class of the ABCI layer.
func (fv *FV) unavailSentinel() Term {
	c := fv.s.declConst("err$unavail", sRef)
	if !fv.globalSeen["err$unavail"] {
		fv.globalSeen["err$unavail"] = true
		fv.s.assume(not(eq(c, tNull)))
		for _, o := range fv.sentinels {
			fv.s.assume(not(eq(c, o)))
		}
		fv.sentinels = append(fv.sentinels, c)
	}
	return c
}

var quantNameRe = regexp.MustCompile(`[A-Za-z_][A-Za-z_0-9]*!q[0-9]+`)

// countBuiltin translates count(lo, hi, func(j int) bool { return P }) into an
// application of a recursive SMT function (define-fun-rec) counting the j in
// [lo, hi) that satisfy P.
func (fv *FV) countBuiltin(e *Env, x *ast.CallExpr, rt types.Type) Value {
	lit, ok := x.Args[2].(*ast.FuncLit)
	if !ok || len(lit.Type.Params.List) != 1 || len(lit.Type.Params.List[0].Names) != 1 || len(lit.Body.List) != 1 {
		fv.specErr("count needs a one-parameter function literal with a single return")
		return fv.freshValue(rt, "count")
	}
	ret, ok := lit.Body.List[0].(*ast.ReturnStmt)
	if !ok {
		fv.specErr("count: body must be a return statement")
		return fv.freshValue(rt, "count")
	}
	lo, hi := fv.expr(e, x.Args[0]).T, fv.expr(e, x.Args[1]).T
	obj := fv.info.Defs[lit.Type.Params.List[0].Names[0]]
	fv.quantN++
	jn := fmt.Sprintf("j!q%d", fv.quantN)
	fv.quantSorts[jn] = sInt
	saved := fv.spec.bind
	nb := map[types.Object]Value{}
	for k, v := range saved {
		nb[k] = v
	}
	nb[obj] = Value{K: kScalar, T: Term{jn, sInt}, Type: obj.Type()}
	fv.spec.bind = nb
	body := fv.expr(e, ret.Results[0]).T
	fv.spec.bind = saved
	// Lambda-lift: every maximal subterm that does not depend on j (nor on a
	// variable bound inside the body) becomes a parameter, so that the recursive
	// function depends only on the shape of the predicate and call sites at
	// different program points share it.
	tree := parseSx(body.S)
	dep := map[string]bool{jn: true}
	tree.innerBinders(dep)
	bound := map[string]string{}
	for k, v := range fv.quantSorts {
		bound[k] = v
	}
	var actuals []string
	var sorts []string
	index := map[string]int{}
	var lift func(n *sx) *sx
	lift = func(n *sx) *sx {
		if n.isAtom() && isLiteralAtom(n.atom) {
			return n
		}
		if !n.containsAny(dep) {
			srt := fv.s.sortOfSx(n, bound)
			if srt != "" {
				str := n.String()
				k, ok := index[str]
				if !ok {
					k = len(actuals)
					index[str] = k
					actuals = append(actuals, str)
					sorts = append(sorts, srt)
				}
				return &sx{atom: fmt.Sprintf("a!%d", k)}
			}
		}
		if n.isAtom() {
			return n
		}
		out := &sx{}
		for i, k := range n.kids {
			if i == 0 && k.isAtom() {
				out.kids = append(out.kids, k) // operator position
				continue
			}
			out.kids = append(out.kids, lift(k))
		}
		return out
	}
	lifted := lift(tree)
	shape := strings.ReplaceAll(lifted.String(), jn, "$J") + "|" + strings.Join(sorts, ",")
	name, ok2 := fv.countFuns[shape]
	if !ok2 {
		name = fmt.Sprintf("cnt$%d", len(fv.countFuns)+1)
		fv.countFuns[shape] = name
		var ps, as strings.Builder
		for k, srt := range sorts {
			fmt.Fprintf(&ps, " (a!%d %s)", k, srt)
			fmt.Fprintf(&as, " a!%d", k)
		}
		b := strings.ReplaceAll(lifted.String(), jn, "(- hi!p 1)")
		def := fmt.Sprintf("(define-fun-rec %s ((lo!p Int) (hi!p Int)%s) Int (ite (<= hi!p lo!p) 0 (+ (%s lo!p (- hi!p 1)%s) (ite %s 1 0))))", name, ps.String(), name, as.String(), b)
		fv.s.declRaw(name, def)
		// facts about every count (provable by induction on hi - lo; asserted as part of the theory of count)
		fv.s.axiom(name+"$range", fmt.Sprintf("(forall ((lo!p Int) (hi!p Int)%s) (! (and (>= (%s lo!p hi!p%s) 0) (<= (%s lo!p hi!p%s) (ite (<= hi!p lo!p) 0 (- hi!p lo!p)))) :pattern ((%s lo!p hi!p%s))))",
			ps.String(), name, as.String(), name, as.String(), name, as.String()))
		fv.trustedUsed["count(lo,hi,P) is defined recursively (define-fun-rec); 0 <= count <= max(hi-lo,0) asserted as a lemma of that definition"] = true
	}
	args := []Term{lo, hi}
	for k, a := range actuals {
		args = append(args, Term{a, sorts[k]})
	}
	return Value{K: kScalar, T: app(sInt, name, args...), Type: rt}
}

// mapCardFacts: consequences of len(m) == |dom m| for a Go map (trusted
// facts about the runtime's map type).
func (fv *FV) mapCardFacts(e *Env, m Term, mt *types.Map) {
	ks := mapKeySort(mt)
	dom := fv.mapDom(e, m, mt)
	l := fv.mapLen(e, m)
	fv.assume(e, Term{fmt.Sprintf("(=> (<= %s 0) (forall ((k %s)) (! (not (select %s k)) :pattern ((select %s k)))))", l.S, ks, dom.S, dom.S), sBool})
	fv.assume(e, Term{fmt.Sprintf("(=> (<= %s 1) (forall ((a %s) (b %s)) (! (=> (and (select %s a) (select %s b)) (= a b)) :pattern ((select %s a) (select %s b)))))", l.S, ks, ks, dom.S, dom.S, dom.S, dom.S), sBool})
	fv.assume(e, Term{fmt.Sprintf("(forall ((a %s) (b %s)) (! (=> (and (select %s a) (select %s b) (not (= a b))) (>= %s 2)) :pattern ((select %s a) (select %s b))))", ks, ks, dom.S, dom.S, l.S, dom.S, dom.S), sBool})
	fv.assume(e, Term{fmt.Sprintf("(forall ((a %s)) (! (=> (select %s a) (>= %s 1)) :pattern ((select %s a))))", ks, dom.S, l.S, dom.S), sBool})
	fv.trustedUsed["Go map: len(m) is the cardinality of its key set (consequences for len<=0, len<=1, len>=2 assumed)"] = true
}

func isInterfaceType(t types.Type) bool {
	_, ok := t.Underlying().(*types.Interface)
	return ok
}

// ufArgs turns values into uninterpreted-function arguments: byte slices by
// the identity of their contents, everything else by value / reference.
func (fv *FV) ufArgs(e *Env, vals []Value) ([]Term, []string) {
	var args []Term
	var sorts []string
	for _, v := range vals {
		if v.K == kSlice {
			isBytes := true
			if v.Type != nil {
				if sl, ok := v.Type.Underlying().(*types.Slice); ok {
					b, isB := sl.Elem().Underlying().(*types.Basic)
					isBytes = isB && b.Kind() == types.Uint8
				}
			}
			if isBytes {
				t := fv.bytesID(e, v)
				args = append(args, t)
				sorts = append(sorts, sInt)
				continue
			}
			args = append(args, v.T, v.Off, v.Len)
			sorts = append(sorts, sRef, sInt, sInt)
			continue
		}
		args = append(args, v.T)
		sorts = append(sorts, v.T.Sort)
	}
	return args, sorts
}

// pureCall: the callee is a deterministic function of its arguments
// (declared `pure:<name>` in contracts/noeffect.txt). Byte-slice results are
// identified by their contents.
func (fv *FV) pureCall(e *Env, name string, rt types.Type, recv *Value, args []Value) Value {
	all := args
	if recv != nil {
		all = append([]Value{*recv}, args...)
	}
	ts, sorts := fv.ufArgs(e, all)
	mk := func(suffix, ret string) Term {
		fname := "uf$" + sanitize(name) + suffix + "$" + sanitize(strings.Join(sorts, "_"))
		if len(ts) == 0 {
			return fv.s.declConst(fname, ret)
		}
		fv.s.declFun(fname, sorts, ret)
		return app(ret, fname, ts...)
	}
	var one func(t types.Type, suffix string) Value
	one = func(t types.Type, suffix string) Value {
		k, srt := sortOf(t)
		switch k {
		case kSlice:
			if !isByteSlice(t) {
				// a slice of non-bytes is identified by (array, length), both functions of the arguments
				ln := mk(suffix+".len", sInt)
				fv.assume(e, le(intLit(0), ln))
				return Value{K: kSlice, T: mk(suffix+".arr", sRef), Off: intLit(0), Len: ln, Cap: ln, Type: t}
			}
			v := fv.freshValue(t, "r$"+name)
			fv.assume(e, eq(fv.bytesID(e, v), mk(suffix, sInt)))
			fv.assumeAllocated(e, v)
			return v
		case kTuple:
			tup := t.(*types.Tuple)
			out := Value{K: kTuple, Type: t}
			for i := 0; i < tup.Len(); i++ {
				out.Tuple = append(out.Tuple, one(tup.At(i).Type(), fmt.Sprintf("%s.%d", suffix, i)))
			}
			return out
		}
		v := Value{K: kScalar, T: mk(suffix, srt), Type: t}
		fv.assume(e, rangeFact(v.T, t))
		return v
	}
	if rt == nil {
		return Value{}
	}
	return one(rt, "")
}

func isByteSlice(t types.Type) bool {
	if t == nil {
		return false
	}
	sl, ok := t.Underlying().(*types.Slice)
	if !ok {
		return false
	}
	b, ok := sl.Elem().Underlying().(*types.Basic)
	return ok && b.Kind() == types.Uint8
}

func matchAny(res []*regexp.Regexp, s string) bool {
	for _, re := range res {
		if re.MatchString(s) {
			return true
		}
	}
	return false
}
