package main

// Per-function verification: entry state, exits, obligations, discharge.

import (
	"context"
	"fmt"
	"go/ast"
	"go/token"
	"go/types"
	"os"
	"path/filepath"
	"sort"
	"strings"
	"sync"
	"time"

	"golang.org/x/tools/go/packages"
)

type FuncUnit struct {
	Fn   *types.Func
	Decl *ast.FuncDecl
	Pkg  *packages.Package
	C    *Contract
	Spec *PkgSpec
	lemma bool
	unstatable []unstatableClause
	stubSig  *types.Signature // contract on an interface method: signature of the generated stub (receiver first)
	ifaceKey string
}

// unstatableClause: a clause over locals that names a variable the function
// does not have (in scope at function level).
type unstatableClause struct {
	label, text, name, file string
	line                    int
}

func (u *FuncUnit) Name() string {
	return shortQual(u.Fn.Pkg()) + "." + u.Key()
}

func (u *FuncUnit) Key() string {
	if u.lemma {
		return u.C.Key
	}
	if u.ifaceKey != "" {
		return u.ifaceKey
	}
	sig := u.Fn.Type().(*types.Signature)
	if r := sig.Recv(); r != nil {
		t := deref(r.Type())
		if n, ok := types.Unalias(t).(*types.Named); ok {
			return n.Obj().Name() + "." + u.Fn.Name()
		}
	}
	return u.Fn.Name()
}

type Obligation struct {
	Name    string `json:"name"`
	Kind    string `json:"kind"`
	Func    string `json:"func"`
	Pos     string `json:"pos"`
	Desc    string `json:"desc"`
	Expect  string `json:"expect"` // "unsat" (must hold) or "not-unsat" (canary)
	Status  string `json:"status"`
	Solver  string `json:"solver"`
	Secs    float64 `json:"secs"`
	Output  string `json:"-"`
	upto    int
	goal    Term
	Trivial bool `json:"trivial,omitempty"`
	preset  bool
	Model   string `json:"-"`
	Replay  *ReplayResult `json:"-"`
	// thorough tier: answer of a second, different solver on the same query
	// ("unsat" = confirmed, "sat" = disagreement, anything else = no answer in time)
	Second       string `json:"second_status,omitempty"`
	SecondSolver string `json:"second_solver,omitempty"`
}

func (o *Obligation) OK() bool {
	if o.Expect == "not-unsat" {
		return o.Status != "unsat"
	}
	return o.Status == "unsat"
}

type FV struct {
	noPrivate    bool            // the function takes element addresses or has closures: no array is treated as private
	mentionMemo  map[string]bool // contractMentions cache
	keepCounters map[string]bool // non-nil: havocAll preserves every bump: ghost counter NOT in this set (the callee cannot bump it on behalf of verified code)
	eng  *Engine
	u    *FuncUnit
	s    *Script
	info *types.Info
	spec *specCtx

	entry     *Env
	entryVals map[types.Object]Value
	exits     []*Exit
	obls      []*Obligation
	oblNames  map[string]int

	compSort  map[string]string
	epochDefs map[int]epochDef
	nextEpoch int
	frames    []*jumpFrame
	loopOrd   map[ast.Stmt]int
	boxed     map[types.Object]bool
	localMaps map[types.Object]bool
	freshMapRefs map[string]bool // refs returned by make(map)/empty literals
	closures  map[string]*ast.FuncLit
	retSeen   map[token.Pos]bool // return statements the symbolic execution arrived at
	covers    map[string][]Term  // per implication clause: (path condition && premise) at every point the clause is checked
	coverCl   map[string]*Clause
	coverOrd  []string
	closureAccs map[string]*closureAcc
	binds     []map[types.Object]Value
	defers    []deferred
	inlineRet *inlineCtx
	inlineDepth, ghostDepth int
	fallthroughs []*Env

	strs       map[string]Term
	strVals    map[string]string
	globalSeen map[string]bool
	sentinels  []Term
	nAddrFun   int
	quantN     int
	siteCount  map[string]int
	quantSorts map[string]string
	countFuns  map[string]string
	sliceKeyID map[string]Term // backing array of a keyformat.Encode result -> key identity
	allocLimit Term

	notes           []string
	curCall         string // call being translated (for diagnostics)
	noteSeen        map[string]bool
	specErrors      []string
	unsoundNotes    []string
	assumptionsUsed map[string]bool
	trustedUsed     map[string]bool
	opaqueUsed      map[string]bool
	calleesUsed     map[string]bool
}

func (fv *FV) unsound(msg string) { fv.unsoundNotes = append(fv.unsoundNotes, msg) }

var safetyKinds = map[string]bool{"nil": true, "bounds": true, "div": true, "overflow": true, "conv": true, "assert-type": true, "panic": true, "alloc": true}

func (fv *FV) kindEnabled(kind string) bool {
	if !safetyKinds[kind] {
		return true
	}
	if fv.u == nil || fv.u.C == nil {
		return false
	}
	if extraSafety[kind] {
		return true
	}
	return fv.u.C.Safety[kind] || fv.u.C.Safety["all"]
}

// extraSafety (GOVC_EXTRA_SAFETY=nil,bounds,...): exploration aid that turns on
// safety obligations for every function under contract (never used by ./check).
var extraSafety = func() map[string]bool {
	m := map[string]bool{}
	for _, k := range strings.Split(os.Getenv("GOVC_EXTRA_SAFETY"), ",") {
		if k != "" {
			m[k] = true
		}
	}
	return m
}()

func (fv *FV) oblige(e *Env, kind string, at ast.Node, desc string, cond Term) {
	if fv.spec != nil || !fv.kindEnabled(kind) || e.dead {
		return
	}
	fv.obligeNamed(e, kind, "", at, desc, cond)
}

func (fv *FV) obligeNamed(e *Env, kind, name string, at ast.Node, desc string, cond Term) {
	if e.dead || !fv.kindEnabled(kind) {
		return
	}
	if name == "" {
		name = kind
	}
	fv.oblNames[name]++
	if n := fv.oblNames[name]; n > 1 || !strings.ContainsAny(name, ":#.") {
		name = fmt.Sprintf("%s#%d", name, n)
	}
	pos := ""
	if at != nil && !isNilNode(at) {
		pos = fv.posStr(at.Pos())
	}
	goal := implies(e.pc, cond)
	o := &Obligation{Name: fv.u.Name() + "#" + name, Kind: kind, Func: fv.u.Name(), Pos: pos, Desc: desc, Expect: "unsat", upto: fv.s.mark(), goal: goal}
	if goal.S == "true" {
		o.Trivial = true
		o.Status = "unsat"
		o.Solver = "syntactic"
	}
	fv.obls = append(fv.obls, o)
}

func (fv *FV) entryBind() map[types.Object]Value { return fv.entryVals }

// specTermA evaluates a clause that is going to be assumed: the typing facts of
// the closed terms it reads (slice lengths >= 0, machine integer ranges) are
// assumed with it. specTermO evaluates a clause that is to be proved: the same
// facts may be used as hypotheses. Both directions are sound: the facts hold
// in every well-typed Go state.
func (fv *FV) specTermA(e *Env, cl *Clause, sc *specCtx) Term {
	var facts []Term
	sc.facts = &facts
	t := fv.specTerm(e, cl, sc)
	return and(append(facts, t)...)
}

func (fv *FV) specTermO(e *Env, cl *Clause, sc *specCtx) Term {
	var facts []Term
	sc.facts = &facts
	t := fv.specTerm(e, cl, sc)
	return implies(and(facts...), t)
}

// notePremise records, for a clause of the form A ==> B, that A is evaluated
// at this point under path condition pc. After the run, one cover obligation
// per such clause states that A is satisfiable at one of these points at
// least: a clause whose premise can never hold proves nothing.
func (fv *FV) notePremise(e *Env, cl *Clause, sc *specCtx) {
	if cl.Expr == nil || e.dead {
		return
	}
	call, ok := ast.Unparen(cl.Expr).(*ast.CallExpr)
	if !ok || len(call.Args) != 2 {
		return
	}
	id, ok := call.Fun.(*ast.Ident)
	if !ok || id.Name != "gh_implies" {
		return
	}
	pcl := *cl
	pcl.Expr = call.Args[0]
	nErr := len(fv.specErrors)
	t := fv.specTermA(e, &pcl, sc)
	fv.specErrors = fv.specErrors[:nErr] // the clause itself reports its errors
	if fv.covers == nil {
		fv.covers = map[string][]Term{}
		fv.coverCl = map[string]*Clause{}
	}
	key := cl.Kind + ":" + cl.Label
	if _, seen := fv.coverCl[key]; !seen {
		fv.coverCl[key] = cl
		fv.coverOrd = append(fv.coverOrd, key)
	}
	fv.covers[key] = append(fv.covers[key], and(e.pc, t))
}

func (fv *FV) specFact(t Term) {
	if fv.spec == nil || fv.spec.facts == nil || t.S == "true" || strings.Contains(t.S, "!q") {
		return
	}
	for _, f := range *fv.spec.facts {
		if f.S == t.S {
			return
		}
	}
	*fv.spec.facts = append(*fv.spec.facts, t)
}

func (fv *FV) specTerm(e *Env, cl *Clause, sc *specCtx) Term {
	if cl.Expr == nil {
		if !cl.unstatable {
			fv.specErr(fmt.Sprintf("%s:%d: clause did not type-check: %s", cl.File, cl.Line, cl.Text))
		}
		return tTrue
	}
	savedInfo, savedSpec := fv.info, fv.spec
	if sc != nil {
		sc.cl = cl
	}
	fv.info, fv.spec = cl.Info, sc
	nErr := len(fv.specErrors)
	v := fv.expr(e, cl.Expr)
	fv.info, fv.spec = savedInfo, savedSpec
	for i := nErr; i < len(fv.specErrors); i++ {
		fv.specErrors[i] += fmt.Sprintf(" [in clause %s:%d: %s]", cl.File, cl.Line, cl.Text)
	}
	if v.T.Sort != sBool {
		fv.specErr(fmt.Sprintf("%s:%d: clause is not boolean: %s", cl.File, cl.Line, cl.Text))
		return tTrue
	}
	return v.T
}

type FuncReport struct {
	Func        string        `json:"func"`
	File        string        `json:"file"`
	Obligations []*Obligation `json:"obligations"`
	Notes       []string      `json:"abstractions,omitempty"`
	SpecErrors  []string      `json:"spec_errors,omitempty"`
	Unsound     []string      `json:"unsupported,omitempty"`
	Assumptions []string      `json:"assumptions,omitempty"`
	Trusted     []string      `json:"trusted,omitempty"`
	Opaque      []string      `json:"opaque_callees,omitempty"`
	Callees     []string      `json:"contract_callees,omitempty"`
	GenSecs     float64       `json:"gen_secs"`
	SolveSecs   float64       `json:"solve_secs"`
	Error       string        `json:"error,omitempty"`
}

func (eng *Engine) newFV(u *FuncUnit) *FV {
	fv := &FV{eng: eng, u: u, s: newScript(), info: u.Pkg.TypesInfo,
		entryVals: map[types.Object]Value{}, oblNames: map[string]int{},
		compSort: map[string]string{}, epochDefs: map[int]epochDef{}, loopOrd: map[ast.Stmt]int{},
		boxed: map[types.Object]bool{}, localMaps: map[types.Object]bool{}, freshMapRefs: map[string]bool{}, closures: map[string]*ast.FuncLit{}, closureAccs: map[string]*closureAcc{}, strs: map[string]Term{}, strVals: map[string]string{},
		globalSeen: map[string]bool{}, siteCount: map[string]int{}, quantSorts: map[string]string{}, countFuns: map[string]string{}, sliceKeyID: map[string]Term{}, noteSeen: map[string]bool{},
		assumptionsUsed: map[string]bool{}, trustedUsed: map[string]bool{}, opaqueUsed: map[string]bool{}, calleesUsed: map[string]bool{}}
	fv.s.declConst("str_empty", sStr)
	fv.strs[""] = Term{"str_empty", sStr}
	fv.strVals["str_empty"] = ""
	fv.s.declFun("str_len", []string{sStr}, sInt)
	fv.s.assume(eq(app(sInt, "str_len", fv.strs[""]), intLit(0)))
	return fv
}

func (eng *Engine) verifyFunc(u *FuncUnit) (rep *FuncReport) {
	start := time.Now()
	fv := eng.newFV(u)
	rep = &FuncReport{Func: u.Name(), File: fv.posStr(u.Decl.Pos())}
	defer func() {
		if r := recover(); r != nil {
			rep.Error = fmt.Sprintf("engine panic: %v", r)
			if eng.debug {
				panic(r)
			}
		}
	}()
	fv.run()
	if u.C != nil && !u.C.Trusted {
		for n := range u.C.ClosureChecked {
			if fv.siteCount[fmt.Sprintf("closureprobe%d", n)] == 0 {
				fv.specErr(fmt.Sprintf("closure %d of %s is under contract (checked/ensures) but its body was never executed on its own (contract out of date?)", n, u.Name()))
			}
		}
		for _, pa := range u.C.PreAssigns {
			if fv.siteCount["preassign"+pa.Cl.Label] == 0 {
				fv.specErr(fmt.Sprintf("preassign clause %s.%s matches no assignment in %s (contract out of date?)", pa.Type, pa.Field, u.Name()))
			}
		}
		for _, pc := range u.C.PreCalls {
			if fv.siteCount["precall"+pc.Cl.Label] == 0 {
				fv.specErr(fmt.Sprintf("precall clause %q matches no call in %s (contract out of date?)", pc.Re.String(), u.Name()))
			}
		}
	}
	if u.C != nil {
		for _, nw := range u.C.NoWrite {
			fv.checkNoWrite(u, nw)
		}
		for _, oh := range u.C.OnlyHere {
			fv.checkOnlyHere(u, oh)
		}
	}
	for _, uc := range u.unstatable {
		fv.obls = append(fv.obls, &Obligation{Name: u.Name() + "#" + uc.label + "#scope", Kind: "scope", Func: u.Name(), Pos: fv.posStr(u.Decl.Pos()),
			Desc:   fmt.Sprintf("contract clause %q (%s:%d) can be stated: it names the local %q, which %s does not define at function level", uc.text, filepath.Base(filepath.Dir(uc.file))+"/"+filepath.Base(uc.file), uc.line, uc.name, u.Key()),
			Expect: "unsat", Status: "unstatable", Solver: "type-check", preset: true,
			Output: fmt.Sprintf("undefined: %s", uc.name)})
	}
	rep.GenSecs = time.Since(start).Seconds()
	t1 := time.Now()
	eng.discharge(fv)
	rep.SolveSecs = time.Since(t1).Seconds()
	rep.Obligations = fv.obls
	rep.Notes = fv.notes
	rep.SpecErrors = fv.specErrors
	rep.Unsound = fv.unsoundNotes
	rep.Assumptions = sortedBoolKeys(fv.assumptionsUsed)
	rep.Trusted = sortedBoolKeys(fv.trustedUsed)
	rep.Opaque = sortedBoolKeys(fv.opaqueUsed)
	rep.Callees = sortedBoolKeys(fv.calleesUsed)
	return rep
}

func (fv *FV) run() {
	u := fv.u
	sig := u.Fn.Type().(*types.Signature)
	e := &Env{vars: map[types.Object]Value{}, heap: map[string]Term{}, pc: tTrue}
	e.alloc = fv.s.declConst("alloc@0", arrSort(sRef, sBool))
	fv.s.declFun("root", []string{sRef}, sRef)
	fv.s.declFun("akind", []string{sRef}, sInt)
	fv.s.declFun("dyn", []string{sRef}, sInt)
	fv.s.assume(eq(fv.rootOf(tNull), tNull))
	fv.entry = e // provisional (globalVar needs entry.alloc)

	// pre-pass: address-taken scalars, loop ordinals
	ord := 0
	ast.Inspect(u.Decl.Body, func(n ast.Node) bool {
		switch n := n.(type) {
		case *ast.ForStmt:
			ord++
			fv.loopOrd[n] = ord
		case *ast.RangeStmt:
			ord++
			fv.loopOrd[n] = ord
		case *ast.CallExpr:
			// x.m() with a pointer-receiver method on an addressable local takes &x implicitly
			if se, ok := ast.Unparen(n.Fun).(*ast.SelectorExpr); ok {
				if sel, ok := fv.info.Selections[se]; ok && sel.Kind() == types.MethodVal {
					if m, ok := sel.Obj().(*types.Func); ok {
						if sig, ok := m.Type().(*types.Signature); ok && sig.Recv() != nil {
							if _, ptrRecv := sig.Recv().Type().Underlying().(*types.Pointer); ptrRecv {
								if id, ok := ast.Unparen(se.X).(*ast.Ident); ok {
									if o, ok := fv.info.ObjectOf(id).(*types.Var); ok && !isPkgLevel(o) && !isObjectType(o.Type()) {
										if _, isPtr := o.Type().Underlying().(*types.Pointer); !isPtr {
											if _, isIface := o.Type().Underlying().(*types.Interface); !isIface {
												fv.boxed[o] = true
											}
										}
									}
								}
							}
						}
					}
				}
			}
		case *ast.UnaryExpr:
			if n.Op == token.AND {
				if id, ok := ast.Unparen(n.X).(*ast.Ident); ok {
					if o, ok := fv.info.ObjectOf(id).(*types.Var); ok && !isPkgLevel(o) && !isObjectType(o.Type()) {
						fv.boxed[o] = true
					}
				}
			}
		}
		return true
	})
	// a local assigned inside a function literal that is handed to a callee
	// lives in a box: the callee may run the literal, so every opaque call
	// may change it
	ast.Inspect(u.Decl.Body, func(n ast.Node) bool {
		call, ok := n.(*ast.CallExpr)
		if !ok {
			return true
		}
		for _, a := range call.Args {
			lit, ok := ast.Unparen(a).(*ast.FuncLit)
			if !ok {
				continue
			}
			mark := func(x ast.Expr) {
				id, ok := ast.Unparen(x).(*ast.Ident)
				if !ok {
					return
				}
				o, ok := fv.info.ObjectOf(id).(*types.Var)
				if !ok || isPkgLevel(o) || isObjectType(o.Type()) || o.IsField() {
					return
				}
				if o.Pos() >= lit.Pos() && o.Pos() < lit.End() {
					return // the literal's own local or parameter
				}
				if o.Pos() < u.Decl.Pos() || o.Pos() >= u.Decl.End() {
					return
				}
				fv.boxed[o] = true
			}
			ast.Inspect(lit.Body, func(m ast.Node) bool {
				switch m := m.(type) {
				case *ast.AssignStmt:
					for _, l := range m.Lhs {
						mark(l)
					}
				case *ast.IncDecStmt:
					mark(m.X)
				}
				return true
			})
		}
		return true
	})
	ast.Inspect(u.Decl.Body, func(n ast.Node) bool {
		switch n := n.(type) {
		case *ast.FuncLit:
			fv.noPrivate = true
		case *ast.UnaryExpr:
			if n.Op == token.AND {
				if _, ok := ast.Unparen(n.X).(*ast.IndexExpr); ok {
					fv.noPrivate = true
				}
			}
		}
		return true
	})
	fv.findLocalMaps(u.Decl.Body)

	declare := func(v *types.Var, base string) {
		if v == nil || v.Name() == "_" {
			return
		}
		val := fv.freshValue(v.Type(), base)
		t := v.Type()
		if u.lemma && val.K == kScalar {
			val = Value{K: kScalar, T: fv.s.freshConst(base, val.T.Sort), Type: t} // mathematical, no range typing
		}
		if val.K == kScalar && val.T.Sort == sRef {
			if isObjectType(t) {
				// by-value object parameter: a private copy
				fv.s.assume(not(eq(val.T, tNull)))
			}
			fv.s.assume(or(eq(val.T, tNull), sel(e.alloc, fv.rootOf(val.T))))
			if p, ok := t.Underlying().(*types.Pointer); ok {
				fv.s.assume(or(eq(val.T, tNull), eq(fv.dynOf(val.T), fv.dynTag(t))))
				_ = p
			}
		}
		if val.K == kSlice {
			fv.s.assume(or(eq(val.T, tNull), sel(e.alloc, fv.rootOf(val.T))))
			fv.s.assume(implies(eq(val.T, tNull), eq(val.Len, intLit(0))))
		}
		fv.entryVals[v] = val
		if fv.boxed[v] {
			r := fv.allocRef(e, v.Name()+"&")
			fv.storeCell(e, boxComp(t), t, "", val, r)
			e.vars[v] = Value{K: kScalar, T: r, Type: t}
			return
		}
		e.vars[v] = val
	}
	if sig.Recv() != nil {
		declare(sig.Recv(), sig.Recv().Name())
	}
	for i := 0; i < sig.Params().Len(); i++ {
		declare(sig.Params().At(i), sig.Params().At(i).Name())
	}
	fv.entry = e.clone()
	for i := 0; i < sig.Results().Len(); i++ {
		r := sig.Results().At(i)
		if r.Name() != "" && r.Name() != "_" {
			fv.defineVar(e, r, fv.zeroValue(e, r.Type()), true)
		}
	}
	// assumed facts: package globals, requires, assumes
	if u.Spec != nil {
		for _, g := range u.Spec.Globals {
			fv.assume(e, fv.specTermA(e, g, &specCtx{old: fv.entry}))
			fv.assumptionsUsed["package invariant (assumed): "+g.Text] = true
		}
	}
	// package invariants of directly imported packages under contract (their
	// package-level values are visible here through qualified identifiers)
	if u.Pkg != nil && u.Pkg.Types != nil {
		for _, imp := range u.Pkg.Types.Imports() {
			if ps := fv.eng.specs[imp.Path()]; ps != nil && ps != u.Spec {
				for _, g := range ps.Globals {
					fv.assume(e, fv.specTermA(e, g, &specCtx{old: fv.entry}))
					fv.assumptionsUsed["package invariant (assumed): "+g.Text] = true
				}
			}
		}
	}
	if u.C != nil {
		for _, cl := range u.C.Requires {
			fv.assume(e, fv.specTermA(e, cl, &specCtx{old: fv.entry, bind: fv.entryVals}))
		}
		for _, cl := range u.C.Assumes {
			fv.assume(e, fv.specTermA(e, cl, &specCtx{old: fv.entry, bind: fv.entryVals}))
			fv.assumptionsUsed["assumed at entry of "+u.Name()+": "+cl.Text] = true
		}
		// allocation bound for `safety alloc`: sum of lengths of slice params + 64KiB
		if u.C.Safety["alloc"] {
			lim := intLit(1 << 16)
			for _, v := range fv.entryVals {
				if v.K == kSlice {
					lim = add(lim, v.Len)
				}
			}
			fv.allocLimit = lim
		}
	}
	// vacuity canary: the entry assumptions must be satisfiable
	fv.obls = append(fv.obls, &Obligation{Name: u.Name() + "#canary.entry", Kind: "canary", Func: u.Name(), Pos: fv.posStr(u.Decl.Pos()),
		Desc: "entry assumptions are satisfiable (must NOT be refutable)", Expect: "not-unsat", upto: fv.s.mark(), goal: tFalse})

	fv.block(e, u.Decl.Body.List)
	if !e.dead {
		var vals []Value
		for i := 0; i < sig.Results().Len(); i++ {
			vals = append(vals, e.vars[sig.Results().At(i)])
		}
		fv.exits = append(fv.exits, &Exit{env: e.clone(), results: vals, pos: u.Decl.Body.Rbrace})
	}
	// exits
	var exitPCs []Term
	for k, ex := range fv.exits {
		fv.runDefers(ex)
		if ex.env.dead {
			continue
		}
		exitPCs = append(exitPCs, ex.env.pc)
		if fv.eng.reachNotes {
			fv.obls = append(fv.obls, &Obligation{Name: fmt.Sprintf("%s#reach.return%d", u.Name(), k+1), Kind: "reach", Func: u.Name(), Pos: fv.posStr(ex.pos),
				Desc: "this return is reachable under the assumptions (informational)", Expect: "not-unsat", upto: fv.s.mark(), goal: not(ex.env.pc)})
		}
		fv.checkExit(ex, k)
	}
	// a return statement the execution never arrived at (its path was cut
	// because a branch condition folded to a constant) carries no obligations:
	// say so instead of silently proving nothing about it
	if fv.eng.reachNotes {
		var walk func(n ast.Node) bool
		walk = func(n ast.Node) bool {
			switch n := n.(type) {
			case *ast.FuncLit:
				return false
			case *ast.ReturnStmt:
				if !fv.retSeen[n.Pos()] {
					fv.obls = append(fv.obls, &Obligation{Name: fmt.Sprintf("%s#reach.never.L%d", u.Name(), fv.eng.fset.Position(n.Pos()).Line), Kind: "reach", Func: u.Name(), Pos: fv.posStr(n.Pos()),
						Desc: "the symbolic execution never arrives at this return (informational)", Expect: "not-unsat", upto: fv.s.mark(), goal: tTrue})
				}
			}
			return true
		}
		ast.Inspect(u.Decl.Body, walk)
	}
	fv.stableClosure()
	for _, key := range fv.coverOrd {
		cl := fv.coverCl[key]
		fv.obls = append(fv.obls, &Obligation{Name: u.Name() + "#cover:" + cl.Label, Kind: "cover", Func: u.Name(), Pos: fv.posStr(u.Decl.Pos()),
			Desc: fmt.Sprintf("the premise of %q can hold where the clause is checked (a clause whose premise never holds proves nothing; must NOT be refutable)", cl.Text), Expect: "not-unsat", upto: fv.s.mark(), goal: not(or(fv.covers[key]...))})
	}
	if len(exitPCs) > 0 {
		fv.obls = append(fv.obls, &Obligation{Name: u.Name() + "#canary.exit", Kind: "canary", Func: u.Name(), Pos: fv.posStr(u.Decl.Pos()),
			Desc: "some return is reachable under the assumptions (must NOT be refutable)", Expect: "not-unsat", upto: fv.s.mark(), goal: not(or(exitPCs...))})
	}
}

func (fv *FV) runDefers(ex *Exit) {
	for i := len(fv.defers) - 1; i >= 0; i-- {
		d := fv.defers[i]
		e := ex.env
		if e.dead {
			return
		}
		// the defer was registered on paths satisfying d.pc
		if d.pc.S == "true" {
			fv.execDeferred(e, d.call)
			continue
		}
		yes := fv.withCond(e, d.pc)
		no := fv.withCond(e, not(d.pc))
		fv.execDeferred(yes, d.call)
		*e = *fv.mergeEnvs([]*Env{yes, no})
	}
	// deferred closures may assign named results
	sig := fv.u.Fn.Type().(*types.Signature)
	for i := 0; i < sig.Results().Len(); i++ {
		r := sig.Results().At(i)
		if r.Name() != "" && r.Name() != "_" && len(fv.defers) > 0 {
			if v, ok := ex.env.vars[r]; ok && i < len(ex.results) {
				if fv.boxed[r] {
					v = fv.loadCell(ex.env, boxComp(r.Type()), r.Type(), "", v.T)
				}
				ex.results[i] = v
			}
		}
	}
}

func (fv *FV) execDeferred(e *Env, call *ast.CallExpr) {
	saved := fv.inlineRet
	fv.inlineRet = nil
	if lit, ok := ast.Unparen(call.Fun).(*ast.FuncLit); ok {
		var args []Value
		for _, a := range call.Args {
			args = append(args, fv.expr(e, a))
		}
		fv.inlineLit(e, lit, args)
	} else {
		fv.expr(e, call)
	}
	fv.inlineRet = saved
}

func (fv *FV) checkExit(ex *Exit, k int) {
	u := fv.u
	if u.C == nil {
		return
	}
	sig := u.Fn.Type().(*types.Signature)
	bind := map[types.Object]Value{}
	for o, v := range fv.entryVals {
		bind[o] = v
	}
	for i := 0; i < sig.Results().Len() && i < len(ex.results); i++ {
		if r := sig.Results().At(i); r.Name() != "" {
			bind[r] = ex.results[i]
		}
	}
	at := &ast.Ident{NamePos: ex.pos}
	line := fv.eng.fset.Position(ex.pos).Line
	for _, cl := range u.C.Ensures {
		fv.notePremise(ex.env, cl, &specCtx{old: fv.entry, bind: bind, results: ex.results, preAlloc: fv.entry.alloc})
		t := fv.specTermO(ex.env, cl, &specCtx{old: fv.entry, bind: bind, results: ex.results, preAlloc: fv.entry.alloc})
		fv.obligeNamed(ex.env, "post", fmt.Sprintf("post:%s@return%d", cl.Label, k+1), at,
			fmt.Sprintf("postcondition %q at return on line %d", cl.Text, line), t)
	}
	for _, cl := range u.C.Stable {
		t := fv.specTermO(ex.env, cl, &specCtx{old: fv.entry, bind: bind, results: ex.results, preAlloc: fv.entry.alloc})
		fv.obligeNamed(ex.env, "post", fmt.Sprintf("post:%s@return%d", cl.Label, k+1), at,
			fmt.Sprintf("stable clause %q at return on line %d", cl.Text, line), t)
	}
	for _, cl := range u.C.EnsuresLocal {
		fv.notePremise(ex.env, cl, &specCtx{old: fv.entry, bind: bind, results: ex.results, preAlloc: fv.entry.alloc, lenient: true})
		t := fv.specTermO(ex.env, cl, &specCtx{old: fv.entry, bind: bind, results: ex.results, preAlloc: fv.entry.alloc, lenient: true})
		fv.obligeNamed(ex.env, "post", fmt.Sprintf("post:%s@return%d", cl.Label, k+1), at,
			fmt.Sprintf("postcondition over locals %q at return on line %d", cl.Text, line), t)
	}
	if u.C.HasMod && !u.C.TrustFrame {
		fv.checkFrame(ex, k, at)
	}
	if u.C.TrustFrame {
		fv.trustedUsed["frame (modifies clause) of "+u.Name()+" is assumed, not checked against its body"] = true
	}
}

// checkFrame: every heap cell outside the declared footprint that was
// allocated at entry is unchanged at this exit.
func (fv *FV) checkFrame(ex *Exit, k int, at ast.Node) {
	var locs []modLoc
	for _, cl := range fv.u.C.Modifies {
		locs = append(locs, fv.modLocations(fv.entry, cl, fv.entryVals)...)
	}
	for _, l := range locs {
		if l.kind == "all" {
			return
		}
	}
	// footprint per component: list of index refs
	foot := map[string][]Term{}
	var addObj func(r Term, t types.Type)
	addObj = func(r Term, t types.Type) {
		if isBigInt(t) {
			foot["bigval"] = append(foot["bigval"], r)
			return
		}
		if a, ok := objArray(t); ok {
			for i := int64(0); i < a.Len(); i++ {
				addObj(fv.elemAddr(a.Elem(), r, intLit(i)), a.Elem())
			}
			return
		}
		st := structOf(t)
		if st == nil {
			return
		}
		for i := 0; i < st.NumFields(); i++ {
			f := st.Field(i)
			if isObjectType(f.Type()) {
				addObj(fv.fieldAddr(t, f, r), f.Type())
				continue
			}
			c := fieldComp(t, f)
			if k, _ := sortOf(f.Type()); k == kSlice {
				for _, sfx := range []string{"#arr", "#off", "#len", "#cap"} {
					foot[c+sfx] = append(foot[c+sfx], r)
				}
			} else {
				foot[c] = append(foot[c], r)
			}
		}
	}
	wholeComp := map[string]bool{}
	for _, l := range locs {
		switch l.kind {
		case "comp":
			for _, c := range cellComps(l.comp, l.typ) {
				wholeComp[c] = true
			}
		case "object":
			addObj(l.ref, l.typ)
		case "cell":
			if k, _ := sortOf(l.typ); k == kSlice {
				for _, sfx := range []string{"#arr", "#off", "#len", "#cap"} {
					foot[l.comp+sfx] = append(foot[l.comp+sfx], l.ref)
				}
			} else {
				foot[l.comp] = append(foot[l.comp], l.ref)
			}
		case "elems":
			// the order flag of the backing array belongs to the slice's footprint
			foot[ordDetComp] = append(foot[ordDetComp], l.slice.T)
			if isObjectType(l.typ) {
				for _, c := range leafComps(l.typ) {
					wholeComp[c] = true
				}
				break
			}
			c := "E$" + sanitize(elemKey(l.typ))
			foot[c] = append(foot[c], l.slice.T)
		case "map":
			mt := l.typ.Underlying().(*types.Map)
			for _, c := range []string{mapDomComp(mt), mapValComp(mt), "ML"} {
				foot[c] = append(foot[c], l.ref)
			}
		}
	}
	comps := sortedKeys(fv.compSort)
	r := fv.s.declConst("frame!r", sRef)
	nFrame := 0
	defer func() {
		if nFrame == 0 {
			fv.obligeNamed(ex.env, "frame", fmt.Sprintf("frame:nothing-written@return%d", k+1), at, "no heap component is written on this path", tTrue)
		}
	}()
	for _, c := range comps {
		srt := fv.compSort[c]
		if strings.HasPrefix(c, "ghost$") || wholeComp[c] {
			continue
		}
		idxS, _ := arrParts(srt)
		if idxS != sRef {
			continue
		}
		a0 := fv.heapGet(fv.entry, c, srt)
		a1 := fv.heapGet(ex.env, c, srt)
		if a0.S == a1.S {
			continue
		}
		var outside []Term
		for _, f := range foot[c] {
			outside = append(outside, not(eq(r, f)))
		}
		cond := implies(and(append(outside, sel(fv.entry.alloc, fv.rootOf(r)))...), eq(sel(a1, r), sel(a0, r)))
		nFrame++
		fv.obligeNamed(ex.env, "frame", fmt.Sprintf("frame:%s@return%d", c, k+1), at,
			"only the declared `modifies` footprint of "+c+" changes", cond)
	}
}

// ---------------------------------------------------------------------------
// Discharge.

func (eng *Engine) discharge(fv *FV) {
	dir := filepath.Join(eng.workDir, strings.ReplaceAll(sanitize(fv.u.Name()), "/", "_"))
	os.MkdirAll(dir, 0o755)
	var wg sync.WaitGroup
	sem := make(chan struct{}, eng.parallel)
	for i, o := range fv.obls {
		if o.Trivial || o.preset {
			continue
		}
		if eng.oblFilter != "" && !strings.Contains(o.Name, eng.oblFilter) {
			o.Status = "skipped"
			continue
		}
		wg.Add(1)
		go func(i int, o *Obligation) {
			defer wg.Done()
			sem <- struct{}{}
			defer func() { <-sem }()
			text := fv.s.query(o.upto, o.goal, true)
			if len(text) > eng.maxVC {
				o.Status = "too-large"
				o.Output = fmt.Sprintf("VC of %d bytes exceeds cap %d", len(text), eng.maxVC)
				return
			}
			if eng.keepSMT {
				os.WriteFile(filepath.Join(dir, fmt.Sprintf("%03d_%s.smt2", i, strings.ReplaceAll(sanitize(o.Name), "/", "_"))), []byte(text), 0o644)
			}
			if o.Kind == "canary" || o.Kind == "reach" || o.Kind == "cover" {
				// a canary must NOT be refutable: a short run that does not answer unsat is a pass
				r := runOne(context.Background(), solvers[0], dir, fmt.Sprintf("q%03d", i), text, 2)
				o.Status, o.Solver, o.Secs, o.Output = r.Status, r.Solver, r.Secs, r.Output
				return
			}
			var best SolverResult
			if eng.knownObl[o.Name] {
				best = runOne(context.Background(), solvers[0], dir, fmt.Sprintf("q%03d", i), stripBackwardAllocTriggers(text), 3)
			} else {
				best, _ = solve(dir, fmt.Sprintf("q%03d", i), text, eng.timeout)
			}
			o.Status, o.Solver, o.Secs, o.Output = best.Status, best.Solver, best.Secs, best.Output
			if eng.crossCheck && o.Status == "unsat" {
				// independent confirmation by a different solver
				for _, sp := range solvers {
					if sp.name == best.Solver {
						continue
					}
					r := runOne(context.Background(), sp, dir, fmt.Sprintf("x%03d", i), text, 20)
					if r.Status == "unsat" || r.Status == "sat" {
						o.Second, o.SecondSolver = r.Status, r.Solver
						break
					}
					if o.Second == "" {
						o.Second, o.SecondSolver = r.Status, r.Solver
					}
				}
			}
			if o.Status != "unsat" && o.Status != "sat" {
				// model search on the quantifier-free part (candidate input for replay)
				mt := fv.s.queryQF(o.upto, o.goal)
				r := runOne(context.Background(), solvers[0], dir, fmt.Sprintf("m%03d", i), mt, 5)
				if r.Status == "sat" {
					o.Model = r.Output
				}
			} else if o.Status == "sat" {
				o.Model = o.Output
			}
			if eng.replay && o.Expect == "unsat" && o.Status != "unsat" && o.Kind != "canary" && o.Kind != "reach" {
				o.Replay = fv.tryReplayObl(o, filepath.Join(dir, fmt.Sprintf("replay%03d", i)))
			}
		}(i, o)
	}
	wg.Wait()
	if !eng.keepSMT {
		os.RemoveAll(dir)
	}
	sort.SliceStable(fv.obls, func(i, j int) bool { return false })
}

func isNilNode(n ast.Node) bool {
	defer func() { recover() }()
	return n == nil || !n.Pos().IsValid() && false
}

// checkOnlyHere discharges an `onlyhere a.b.M` clause syntactically: in the
// function's package (all files, test files excluded by the loader) every call
// whose callee expression ends with the selector chain a.b.M is inside a
// function that carries the same clause. It is an ownership condition on a
// data structure: only the functions whose contracts speak about the writes
// may write it. A function literal counts for the declaration it is in; a
// call outside any function declaration (package initializer) is a violation.
func (fv *FV) checkOnlyHere(u *FuncUnit, suffix string) {
	o := &Obligation{Name: u.Name() + "#onlyhere:" + suffix, Kind: "frame", Func: u.Name(), Pos: fv.posStr(u.Decl.Pos()),
		Desc: fmt.Sprintf("calls of %s occur only in functions whose contract allows them", suffix), Expect: "unsat", Status: "unsat", Solver: "syntactic", preset: true}
	allowed := map[string]bool{}
	if u.Spec != nil {
		for key, c := range u.Spec.Contracts {
			for _, s := range c.OnlyHere {
				if s == suffix {
					allowed[key] = true
				}
			}
		}
	}
	allowed[u.Key()] = true
	for _, f := range u.Pkg.Syntax {
		for _, d := range f.Decls {
			fd, ok := d.(*ast.FuncDecl)
			var body ast.Node = d
			key := ""
			if ok {
				if fd.Body == nil {
					continue
				}
				body = fd.Body
				key = fd.Name.Name
				if fd.Recv != nil && len(fd.Recv.List) == 1 {
					t := fd.Recv.List[0].Type
					if st, isStar := t.(*ast.StarExpr); isStar {
						t = st.X
					}
					if ix, isIx := t.(*ast.IndexExpr); isIx {
						t = ix.X
					}
					if id, isId := t.(*ast.Ident); isId {
						key = id.Name + "." + fd.Name.Name
					}
				}
			}
			if ok && allowed[key] {
				continue
			}
			ast.Inspect(body, func(n ast.Node) bool {
				call, isCall := n.(*ast.CallExpr)
				if !isCall || o.Status == "sat" {
					return o.Status != "sat"
				}
				txt := types.ExprString(call.Fun)
				if txt == suffix || strings.HasSuffix(txt, "."+suffix) {
					o.Status = "sat"
					o.Pos = fv.posStr(call.Pos())
					where := key
					if where == "" {
						where = "a package-level initializer"
					}
					o.Output = fmt.Sprintf("%s is called in %s at %s, which no contract allows", suffix, where, fv.posStr(call.Pos()))
				}
				return true
			})
		}
	}
	fv.obls = append(fv.obls, o)
}

// checkNoWrite discharges a `nowrite T.f` clause syntactically: no assignment,
// increment or address-taking in the body targets field f of a T. (Writes by
// callees are outside this check: it is a frame on the function's own
// statements.) The result is an obligation like any other.
func (fv *FV) checkNoWrite(u *FuncUnit, spec string) {
	parts := strings.SplitN(spec, ".", 2)
	o := &Obligation{Name: u.Name() + "#nowrite:" + spec, Kind: "frame", Func: u.Name(), Pos: fv.posStr(u.Decl.Pos()),
		Desc: fmt.Sprintf("no statement of %s assigns field %s", u.Key(), spec), Expect: "unsat", Status: "unsat", Solver: "syntactic", preset: true}
	if len(parts) != 2 {
		o.Status, o.Output = "error", "nowrite needs Type.field"
		fv.obls = append(fv.obls, o)
		return
	}
	isTarget := func(x ast.Expr) bool {
		for {
			switch y := x.(type) {
			case *ast.ParenExpr:
				x = y.X
				continue
			case *ast.IndexExpr: // x.f[i] = ... writes through f, not f itself
				return false
			}
			break
		}
		se, ok := x.(*ast.SelectorExpr)
		if !ok || se.Sel.Name != parts[1] {
			return false
		}
		sel, ok := fv.info.Selections[se]
		if !ok || sel.Kind() != types.FieldVal {
			return false
		}
		t := deref(sel.Recv())
		if n, ok := types.Unalias(t).(*types.Named); ok {
			return n.Obj().Name() == parts[0]
		}
		return false
	}
	found := token.NoPos
	ast.Inspect(u.Decl.Body, func(n ast.Node) bool {
		switch s := n.(type) {
		case *ast.AssignStmt:
			for _, l := range s.Lhs {
				if isTarget(l) {
					found = l.Pos()
				}
			}
		case *ast.IncDecStmt:
			if isTarget(s.X) {
				found = s.X.Pos()
			}
		case *ast.UnaryExpr:
			if s.Op == token.AND && isTarget(s.X) {
				found = s.X.Pos()
			}
		}
		return found == token.NoPos
	})
	if found != token.NoPos {
		o.Status = "sat"
		o.Pos = fv.posStr(found)
		o.Output = "the field is assigned (or its address taken) at " + fv.posStr(found)
	}
	fv.obls = append(fv.obls, o)
}
