package main

// Contract files: comment-only Go files (build tag verif) whose `//@` lines
// carry Gobra-style contracts keyed by function name and loop ordinal.

import (
	"bufio"
	"fmt"
	"go/ast"
	"go/types"
	"os"
	"regexp"
	"strconv"
	"strings"
)

// PreCall is "precall <regexp on the callee's full name> :: <condition over parameters and locals>".
// PreAssign is an assignment-site obligation (a semantic frame condition).
type PreAssign struct {
	Type, Field string
	Cl          *Clause
}

type PreCall struct {
	Re *regexp.Regexp
	Cl *Clause
}

type Clause struct {
	Kind  string // requires, ensures, invariant, assumes, modifies, global, assert
	Text  string // contract-language source
	Go    string // rewritten into plain Go expression syntax
	File  string
	Line  int
	Expr  ast.Expr
	Info  *types.Info
	Label string // stable label: kind + ordinal within the contract
	unstatable bool // names a local the function does not define (reported as a failed obligation)
	Locals map[string]*types.Var // locals of nested blocks the clause names (through gh_local)
}

type LoopSpec struct {
	Inv      []*Clause
	Modifies []*Clause // reserved
}

type GhostFunc struct {
	Name string
	Src  string // complete Go function declaration text
	Line int
}

type Contract struct {
	Key      string // "Move", "Quantity.Add"
	File     string
	Line     int
	Props    []string
	Safety   map[string]bool
	Requires []*Clause
	Ensures  []*Clause
	EnsuresTrusted []*Clause // "ensures-trusted P": assumed at call sites like an ensures clause but NOT checked against the body (the part of a partially verified contract that stays an assumption, e.g. the CBOR round trip of a state accessor); listed in the evidence
	Stable   []*Clause // "stable P": two-state clause over the receiver only that every call establishes AND that is closed under composition (checked); the container/heap models assume it for the unknown sequence of Swap calls the library makes
	Defines  []*Clause // definitional postconditions: introduce an uninterpreted predicate as "this deterministic function accepts"; assumed at call sites, not checked
	ClosureEnsures map[int][]*Clause // "closure N ensures P": P holds at every exit of the N-th literal's body (old() = the state the body was entered in); implies `closure N checked`
	ClosureChecked map[int]bool    // "closure N checked": the N-th function literal's body is executed (free arguments, havocked heap) so that call-site obligations and safety obligations apply inside it
	ClosureAccepts map[int]*Clause // "closure N accepts P": whenever the N-th function literal returns a nil error, P holds of its arguments
	PanicsWhen *Clause      // "panics when P": every explicit panic of the body is reached only in states satisfying P (instead of "unreachable")
	PreAssigns []*PreAssign // "preassign T.f :: P": every assignment in the body to field f of a T is made only in states satisfying P (evaluated before the store)
	PreCalls []*PreCall // call-site obligations: every call of a matching callee is made only when the condition holds (dominance)
	EnsuresLocal []*Clause // postconditions that may mention top-level local variables (their value at the return)
	Assumes  []*Clause
	AssumePre []*regexp.Regexp // callees whose preconditions are assumed (not proved) at this function's call sites
	Modifies []*Clause
	HasMod   bool
	Loops    map[int]*LoopSpec
	Trusted  bool
	Pure     bool
	Opaque   bool // callers use the contract; body is not checked and not claimed
	BodyOnly bool // the body is checked against the contract, but call sites ignore it (the callee keeps its noeffect.txt class): for safety-only contracts on widely used helpers
	TrustFrame bool // the modifies clause is assumed for the body (e.g. writes through an interface-typed destination)
	Cases    []string
	OnlyHere []string // "onlyhere x.y.M": in this package, calls whose callee expression ends with x.y.M occur only in functions carrying this clause
	NoWrite  []string // "nowrite T.f": the body contains no direct assignment to field f of struct type T (composite literals excepted)
	Notes    []string
	Used     bool
	InitVar  string // "init <Var>": the contract is about the initializer of a package-level variable
	Iface    string // "iface <signature>": the contract is on an interface method; the text is the stub's parameter and result lists, receiver first: "(self T, a A) (r R)"
}

func (c *Contract) servesProp(p string) bool {
	for _, q := range c.Props {
		if q == p {
			return true
		}
	}
	return false
}

type PkgSpec struct {
	Dir       string // package directory relative to /repo/go
	File      string
	PkgName   string
	Contracts map[string]*Contract
	Order     []string
	Ghosts    []*GhostFunc
	GhostVars []*GhostFunc
	GhostTypes []string
	Globals   []*Clause
	Imports   []string
	Lemmas    []*Lemma
}

type Lemma struct {
	Name     string
	Params   string // Go parameter list text
	Requires []*Clause
	Ensures  []*Clause
	Props    []string
	Line     int
	File     string
}

var clauseKeywords = map[string]bool{
	"func": true, "props": true, "safety": true, "requires": true, "ensures": true,
	"modifies": true, "loop": true, "trusted": true, "pure": true, "opaque": true, "ghost": true,
	"global": true, "lemma": true, "assumes": true, "import": true, "note": true, "cases": true, "end": true, "trustframe": true, "ensures-local": true, "defines": true, "precall": true, "preassign": true, "panics": true, "closure": true, "iface": true, "init": true, "nowrite": true, "onlyhere": true, "assume-pre": true, "stable": true, "bodyonly": true, "ensures-trusted": true,
}

var funcKeyRe = regexp.MustCompile(`^(?:\(\s*\*?\s*(\w+)\s*\)\s*\.\s*(\w+)|(\w+)\s*\.\s*(\w+)|(\w+))`)

func parseFuncKey(s string) (string, error) {
	m := funcKeyRe.FindStringSubmatch(strings.TrimSpace(s))
	if m == nil {
		return "", fmt.Errorf("bad function key %q", s)
	}
	switch {
	case m[1] != "":
		return m[1] + "." + m[2], nil
	case m[3] != "":
		return m[3] + "." + m[4], nil
	}
	return m[5], nil
}

func parseSpecFile(path, relDir string) (*PkgSpec, error) {
	f, err := os.Open(path)
	if err != nil {
		return nil, err
	}
	defer f.Close()
	ps := &PkgSpec{Dir: relDir, File: path, Contracts: map[string]*Contract{}}
	type raw struct {
		kw, text string
		line     int
	}
	var items []raw
	sc := bufio.NewScanner(f)
	sc.Buffer(make([]byte, 1<<20), 1<<20)
	ln := 0
	for sc.Scan() {
		ln++
		line := sc.Text()
		t := strings.TrimSpace(line)
		if strings.HasPrefix(t, "package ") {
			ps.PkgName = strings.TrimSpace(strings.TrimPrefix(t, "package "))
			continue
		}
		var body string
		switch {
		case strings.HasPrefix(t, "//@"):
			body = t[3:]
		case strings.HasPrefix(t, "// @"):
			body = t[4:]
		default:
			continue
		}
		bt := strings.TrimSpace(body)
		if bt == "" {
			continue
		}
		word := bt
		if i := strings.IndexAny(bt, " \t"); i >= 0 {
			word = bt[:i]
		}
		if clauseKeywords[word] {
			items = append(items, raw{word, strings.TrimSpace(bt[len(word):]), ln})
		} else if len(items) > 0 {
			items[len(items)-1].text += " " + bt
		} else {
			return nil, fmt.Errorf("%s:%d: continuation without clause", path, ln)
		}
	}
	if err := sc.Err(); err != nil {
		return nil, err
	}
	var cur *Contract
	var curLemma *Lemma
	mk := func(kind, text string, line int, n int) *Clause {
		return &Clause{Kind: kind, Text: text, File: path, Line: line, Label: fmt.Sprintf("%s%d", kind, n)}
	}
	for _, it := range items {
		switch it.kw {
		case "func":
			key, err := parseFuncKey(it.text)
			if err != nil {
				return nil, fmt.Errorf("%s:%d: %v", path, it.line, err)
			}
			if _, dup := ps.Contracts[key]; dup {
				return nil, fmt.Errorf("%s:%d: duplicate contract for %s", path, it.line, key)
			}
			cur = &Contract{Key: key, File: path, Line: it.line, Safety: map[string]bool{}, Loops: map[int]*LoopSpec{}}
			curLemma = nil
			ps.Contracts[key] = cur
			ps.Order = append(ps.Order, key)
		case "init":
			name := strings.TrimSpace(it.text)
			key := "init." + name
			if _, dup := ps.Contracts[key]; dup {
				return nil, fmt.Errorf("%s:%d: duplicate contract for %s", path, it.line, key)
			}
			cur = &Contract{Key: key, InitVar: name, File: path, Line: it.line, Safety: map[string]bool{}, Loops: map[int]*LoopSpec{}}
			curLemma = nil
			ps.Contracts[key] = cur
			ps.Order = append(ps.Order, key)
		case "end":
			cur, curLemma = nil, nil
		case "ghost":
			src := strings.TrimSpace(it.text)
			if mt := regexp.MustCompile(`^type\s+(\w+)\s*=?\s*(.+)$`).FindStringSubmatch(src); mt != nil {
				ps.GhostTypes = append(ps.GhostTypes, src)
				continue
			}
			if mv := regexp.MustCompile(`^var\s+(\w+)\s+(.+)$`).FindStringSubmatch(src); mv != nil {
				ps.GhostVars = append(ps.GhostVars, &GhostFunc{Name: mv[1], Src: src, Line: it.line})
				continue
			}
			m := regexp.MustCompile(`^func\s+(\w+)`).FindStringSubmatch(src)
			if m == nil {
				return nil, fmt.Errorf("%s:%d: bad ghost declaration", path, it.line)
			}
			ps.Ghosts = append(ps.Ghosts, &GhostFunc{Name: m[1], Src: src, Line: it.line})
		case "global":
			ps.Globals = append(ps.Globals, mk("global", it.text, it.line, len(ps.Globals)))
		case "import":
			ps.Imports = append(ps.Imports, strings.TrimSpace(it.text))
		case "lemma":
			m := regexp.MustCompile(`^(\w+)\s*\((.*)\)\s*$`).FindStringSubmatch(it.text)
			if m == nil {
				return nil, fmt.Errorf("%s:%d: bad lemma header", path, it.line)
			}
			curLemma = &Lemma{Name: m[1], Params: m[2], Line: it.line, File: path}
			cur = nil
			ps.Lemmas = append(ps.Lemmas, curLemma)
		default:
			if curLemma != nil {
				switch it.kw {
				case "requires":
					curLemma.Requires = append(curLemma.Requires, mk("requires", it.text, it.line, len(curLemma.Requires)))
				case "ensures":
					curLemma.Ensures = append(curLemma.Ensures, mk("ensures", it.text, it.line, len(curLemma.Ensures)))
				case "props":
					curLemma.Props = strings.Fields(it.text)
				case "note":
				default:
					return nil, fmt.Errorf("%s:%d: clause %q not allowed in lemma", path, it.line, it.kw)
				}
				continue
			}
			if cur == nil {
				return nil, fmt.Errorf("%s:%d: clause %q outside a func block", path, it.line, it.kw)
			}
			switch it.kw {
			case "props":
				cur.Props = strings.Fields(it.text)
			case "iface":
				cur.Iface = strings.TrimSpace(it.text)
				cur.Trusted = true // there is no body to verify: a contract on an interface method is an assumption about every implementation
			case "safety":
				for _, s := range strings.Fields(it.text) {
					cur.Safety[s] = true
				}
			case "requires":
				cur.Requires = append(cur.Requires, mk("requires", it.text, it.line, len(cur.Requires)))
			case "ensures":
				cur.Ensures = append(cur.Ensures, mk("ensures", it.text, it.line, len(cur.Ensures)))
			case "ensures-trusted":
				c := mk("ensures", it.text, it.line, len(cur.EnsuresTrusted))
				c.Label = fmt.Sprintf("ensurestrusted%d", len(cur.EnsuresTrusted))
				cur.EnsuresTrusted = append(cur.EnsuresTrusted, c)
			case "stable":
				c := mk("ensures", it.text, it.line, len(cur.Stable))
				c.Label = fmt.Sprintf("stable%d", len(cur.Stable))
				cur.Stable = append(cur.Stable, c)
			case "defines":
				c := mk("ensures", it.text, it.line, len(cur.Defines))
				c.Label = fmt.Sprintf("defines%d", len(cur.Defines))
				cur.Defines = append(cur.Defines, c)
			case "closure":
				f := strings.Fields(it.text)
				if len(f) == 2 && f[1] == "checked" {
					n, err := strconv.Atoi(f[0])
					if err != nil || n < 1 {
						return nil, fmt.Errorf("%s:%d: bad closure ordinal %q", path, it.line, f[0])
					}
					if cur.ClosureChecked == nil {
						cur.ClosureChecked = map[int]bool{}
					}
					cur.ClosureChecked[n] = true
					continue
				}
				if len(f) >= 3 && f[1] == "ensures" {
					n, err := strconv.Atoi(f[0])
					if err != nil || n < 1 {
						return nil, fmt.Errorf("%s:%d: bad closure ordinal %q", path, it.line, f[0])
					}
					if cur.ClosureEnsures == nil {
						cur.ClosureEnsures = map[int][]*Clause{}
					}
					if cur.ClosureChecked == nil {
						cur.ClosureChecked = map[int]bool{}
					}
					c := mk("ensures", strings.TrimSpace(strings.SplitN(it.text, "ensures", 2)[1]), it.line, len(cur.ClosureEnsures[n]))
					c.Label = fmt.Sprintf("closure%d.ensures%d", n, len(cur.ClosureEnsures[n]))
					cur.ClosureEnsures[n] = append(cur.ClosureEnsures[n], c)
					cur.ClosureChecked[n] = true
					continue
				}
				if len(f) < 3 || f[1] != "accepts" {
					return nil, fmt.Errorf("%s:%d: closure clause must be `closure N accepts <condition>`", path, it.line)
				}
				n, err := strconv.Atoi(f[0])
				if err != nil || n < 1 {
					return nil, fmt.Errorf("%s:%d: bad closure ordinal %q", path, it.line, f[0])
				}
				c := mk("ensures", strings.TrimSpace(strings.SplitN(it.text, "accepts", 2)[1]), it.line, n)
				c.Label = fmt.Sprintf("closure%d.accepts", n)
				if cur.ClosureAccepts == nil {
					cur.ClosureAccepts = map[int]*Clause{}
				}
				cur.ClosureAccepts[n] = c
			case "panics":
				if !strings.HasPrefix(strings.TrimSpace(it.text), "when ") {
					return nil, fmt.Errorf("%s:%d: panics clause must be `panics when <condition>`", path, it.line)
				}
				c := mk("ensures", strings.TrimSpace(strings.TrimPrefix(strings.TrimSpace(it.text), "when ")), it.line, 0)
				c.Label = "panicswhen"
				cur.PanicsWhen = c
			case "preassign":
				parts := strings.SplitN(it.text, "::", 2)
				tf := strings.SplitN(strings.TrimSpace(parts[0]), ".", 2)
				if len(parts) != 2 || len(tf) != 2 {
					return nil, fmt.Errorf("%s:%d: preassign clause must be `preassign Type.field :: <condition>`", path, it.line)
				}
				c := mk("ensures", strings.TrimSpace(parts[1]), it.line, len(cur.PreAssigns))
				c.Label = fmt.Sprintf("preassign%d", len(cur.PreAssigns))
				cur.PreAssigns = append(cur.PreAssigns, &PreAssign{Type: tf[0], Field: tf[1], Cl: c})
			case "precall":
				parts := strings.SplitN(it.text, "::", 2)
				if len(parts) != 2 {
					return nil, fmt.Errorf("%s:%d: precall needs `<callee regexp> :: <condition>`", path, it.line)
				}
				re, err := regexp.Compile(strings.TrimSpace(parts[0]))
				if err != nil {
					return nil, fmt.Errorf("%s:%d: %v", path, it.line, err)
				}
				c := mk("ensures", strings.TrimSpace(parts[1]), it.line, len(cur.PreCalls))
				c.Label = fmt.Sprintf("precall%d", len(cur.PreCalls))
				cur.PreCalls = append(cur.PreCalls, &PreCall{Re: re, Cl: c})
			case "ensures-local":
				c := mk("ensures", it.text, it.line, len(cur.EnsuresLocal))
				c.Label = fmt.Sprintf("ensureslocal%d", len(cur.EnsuresLocal))
				cur.EnsuresLocal = append(cur.EnsuresLocal, c)
			case "nowrite":
				cur.NoWrite = append(cur.NoWrite, strings.Fields(it.text)...)
			case "onlyhere":
				cur.OnlyHere = append(cur.OnlyHere, strings.Fields(it.text)...)
			case "assume-pre":
				re, err := regexp.Compile(strings.TrimSpace(it.text))
				if err != nil {
					return nil, fmt.Errorf("%s:%d: %v", path, it.line, err)
				}
				cur.AssumePre = append(cur.AssumePre, re)
			case "assumes":
				cur.Assumes = append(cur.Assumes, mk("assumes", it.text, it.line, len(cur.Assumes)))
			case "modifies":
				cur.HasMod = true
				for _, part := range splitTop(it.text, ',') {
					part = strings.TrimSpace(part)
					if part == "" || part == "nothing" {
						continue
					}
					cur.Modifies = append(cur.Modifies, mk("modifies", part, it.line, len(cur.Modifies)))
				}
			case "loop":
				fs := strings.Fields(it.text)
				if len(fs) < 3 {
					return nil, fmt.Errorf("%s:%d: bad loop clause", path, it.line)
				}
				n, err := strconv.Atoi(fs[0])
				if err != nil {
					return nil, fmt.Errorf("%s:%d: bad loop ordinal", path, it.line)
				}
				rest := strings.TrimSpace(strings.TrimPrefix(strings.TrimSpace(it.text), fs[0]))
				kind := fs[1]
				rest = strings.TrimSpace(strings.TrimPrefix(rest, kind))
				ls := cur.Loops[n]
				if ls == nil {
					ls = &LoopSpec{}
					cur.Loops[n] = ls
				}
				switch kind {
				case "invariant":
					c := mk("invariant", rest, it.line, len(ls.Inv))
					c.Label = fmt.Sprintf("loop%d.inv%d", n, len(ls.Inv))
					ls.Inv = append(ls.Inv, c)
				default:
					return nil, fmt.Errorf("%s:%d: unknown loop clause %q", path, it.line, kind)
				}
			case "trusted":
				cur.Trusted = true
			case "pure":
				cur.Pure = true
			case "opaque":
				cur.Opaque = true
			case "bodyonly":
				cur.BodyOnly = true
			case "trustframe":
				cur.TrustFrame = true
			case "cases":
				cur.Cases = append(cur.Cases, it.text)
			case "note":
				cur.Notes = append(cur.Notes, it.text)
			}
		}
	}
	return ps, nil
}

// splitTop splits s on sep at bracket depth 0 (outside string literals).
func splitTop(s string, sep byte) []string {
	var out []string
	depth := 0
	start := 0
	inStr := byte(0)
	for i := 0; i < len(s); i++ {
		c := s[i]
		if inStr != 0 {
			if c == '\\' {
				i++
			} else if c == inStr {
				inStr = 0
			}
			continue
		}
		switch c {
		case '"', '\'', '`':
			inStr = c
		case '(', '[', '{':
			depth++
		case ')', ']', '}':
			depth--
		default:
			if c == sep && depth == 0 {
				out = append(out, s[start:i])
				start = i + 1
			}
		}
	}
	return append(out, s[start:])
}

// findTop returns the index of the first occurrence of pat at depth 0, or -1.
func findTop(s, pat string) int {
	depth := 0
	inStr := byte(0)
	for i := 0; i < len(s); i++ {
		c := s[i]
		if inStr != 0 {
			if c == '\\' {
				i++
			} else if c == inStr {
				inStr = 0
			}
			continue
		}
		switch c {
		case '"', '\'', '`':
			inStr = c
		case '(', '[', '{':
			depth++
		case ')', ']', '}':
			depth--
		default:
			if depth == 0 && strings.HasPrefix(s[i:], pat) {
				return i
			}
		}
	}
	return -1
}

var quantRe = regexp.MustCompile(`^(forall|exists)\s+([^:]+?)\s*::`)

// rewriteSpec turns the contract language into plain Go expression syntax:
//   a ==> b              gh_implies(a, b)      (right associative, lowest precedence)
//   forall i int :: P    gh_forall(func(i int) bool { return P })
// Keyword-like ghost builtins are renamed by renameBuiltins.
func rewriteSpec(s string) string {
	s = strings.TrimSpace(s)
	if m := quantRe.FindStringSubmatch(s); m != nil {
		body := rewriteSpec(s[len(m[0]):])
		return fmt.Sprintf("gh_%s(func(%s) bool { return %s })", m[1], m[2], body)
	}
	if i := findTop(s, "==>"); i >= 0 {
		return fmt.Sprintf("gh_implies(%s, %s)", rewriteGroups(s[:i]), rewriteSpec(s[i+3:]))
	}
	return rewriteGroups(s)
}

// rewriteGroups rewrites the contents of every top-level bracket group.
func rewriteGroups(s string) string {
	var b strings.Builder
	inStr := byte(0)
	for i := 0; i < len(s); i++ {
		c := s[i]
		if inStr != 0 {
			b.WriteByte(c)
			if c == '\\' && i+1 < len(s) {
				i++
				b.WriteByte(s[i])
			} else if c == inStr {
				inStr = 0
			}
			continue
		}
		switch c {
		case '"', '\'', '`':
			inStr = c
			b.WriteByte(c)
		case '(', '[', '{':
			j := matchClose(s, i)
			if j < 0 {
				b.WriteString(s[i:])
				return b.String()
			}
			inner := s[i+1 : j]
			if quantRe.MatchString(strings.TrimSpace(inner)) {
				b.WriteByte(c)
				b.WriteString(rewriteSpec(inner))
				b.WriteByte(s[j])
				i = j
				continue
			}
			parts := splitTop(inner, ',')
			for k, p := range parts {
				if strings.TrimSpace(p) != "" {
					parts[k] = rewriteSpec(p)
				}
			}
			b.WriteByte(c)
			b.WriteString(strings.Join(parts, ", "))
			b.WriteByte(s[j])
			i = j
		default:
			b.WriteByte(c)
		}
	}
	return strings.TrimSpace(b.String())
}

func matchClose(s string, i int) int {
	depth := 0
	inStr := byte(0)
	for j := i; j < len(s); j++ {
		c := s[j]
		if inStr != 0 {
			if c == '\\' {
				j++
			} else if c == inStr {
				inStr = 0
			}
			continue
		}
		switch c {
		case '"', '\'', '`':
			inStr = c
		case '(', '[', '{':
			depth++
		case ')', ']', '}':
			depth--
			if depth == 0 {
				return j
			}
		}
	}
	return -1
}

// ghost builtins available in every contract; the contract language names on
// the left are rewritten to the prelude identifiers on the right.
var builtinRename = map[string]string{
	"old": "gh_old", "ite": "gh_ite", "bigval": "gh_bigval", "fresh": "gh_fresh",
	"typeIs": "gh_typeIs", "idx": "gh_idx", "visited": "gh_visited", "inDom": "gh_inDom",
	"mapLen": "gh_mapLen", "allocated": "gh_allocated", "pureOf": "gh_pureOf",
	"uf": "gh_uf", "ufb": "gh_ufb", "ufr": "gh_ufr", "seqOf": "gh_seqOf", "wrote": "gh_wrote", "div": "gh_div", "mod": "gh_mod",
	"sameElems": "gh_sameElems", "abs": "gh_abs", "min": "gh_min", "max": "gh_max",
	"count": "gh_count", "sum": "gh_sum", "upd": "gh_upd", "hdr": "gh_hdr", "kvDomain": "gh_kvDomain", "kvState": "gh_kvState", "kvHas": "gh_kvHas", "kvVal": "gh_kvVal", "kvWrites": "gh_kvWrites", "bytesId": "gh_bytesId", "keyId": "gh_keyId", "keyOf": "gh_keyOf", "sameRef": "gh_sameRef", "defined": "gh_defined", "argIs": "gh_argIs", "argc": "gh_argc", "argAs": "gh_argAs", "btHas": "gh_btHas", "btNil": "gh_btNil", "btBytes": "gh_btBytes", "arrOf": "gh_arrOf", "ordDet": "gh_ordDet", "anyOf": "gh_anyOf", "unavail": "gh_unavail", "errIs": "gh_errIs", "mapEq": "gh_mapEq", "emptyMap": "gh_emptyMap", "chanSends": "gh_chanSends", "sameVal": "gh_sameVal",
}

var identCallRe = regexp.MustCompile(`\b([A-Za-z_]\w*)\s*\(`)

var genericCallRe = regexp.MustCompile(`\b(ufr|typeIs|argAs)\s*\[`)

func renameBuiltins(s string) string {
	s = genericCallRe.ReplaceAllStringFunc(s, func(m string) string {
		return "gh_" + m
	})
	return identCallRe.ReplaceAllStringFunc(s, func(m string) string {
		name := identCallRe.FindStringSubmatch(m)[1]
		// do not touch selectors like x.old(
		if r, ok := builtinRename[name]; ok {
			return r + "("
		}
		return m
	})
}

// preludeSrc is the Go text of the ghost prelude added (through an overlay,
// never on disk under /repo) to every package that has a contract file.
func preludeSrc(pkgName string, ps *PkgSpec) string {
	var b strings.Builder
	b.WriteString("//go:build verif\n\npackage " + pkgName + "\n\n")
	var ghostText strings.Builder
	for _, g := range ps.Ghosts {
		ghostText.WriteString(g.Src + "\n")
	}
	for _, g := range ps.GhostVars {
		ghostText.WriteString(g.Src + "\n")
	}
	for _, g := range ps.GhostTypes {
		ghostText.WriteString(g + "\n")
	}
	for _, l := range ps.Lemmas {
		ghostText.WriteString(l.Params + "\n")
	}
	for _, k := range ps.Order {
		if c := ps.Contracts[k]; c.Iface != "" {
			ghostText.WriteString(c.Iface + "\n")
		}
	}
	for _, imp := range ps.Imports {
		// import only what the ghost declarations mention (clauses are checked in the scope of the real files)
		f := strings.Fields(imp)
		path := strings.Trim(f[len(f)-1], "\"")
		alias := path[strings.LastIndex(path, "/")+1:]
		if len(f) == 2 {
			alias = f[0]
		}
		if strings.Contains(ghostText.String(), alias+".") {
			b.WriteString("import " + imp + "\n")
		}
	}
	b.WriteString(`
func gh_old[T any](x T) T                 { return x }
func gh_implies(a, b bool) bool           { return !a || b }
func gh_forall(f any) bool                { return f != nil }
func gh_exists(f any) bool                { return f != nil }
func gh_ite[T any](c bool, a, b T) T      { if c { return a }; return b }
func gh_bigval[T any](x T) int            { return 0 }
func gh_fresh[T any](x T) bool            { return true }
func gh_allocated[T any](x T) bool        { return true }
func gh_typeIs[T any](x any) bool         { _, ok := x.(T); return ok }
func gh_result[T any](i int) T            { var z T; return z }
func gh_idx() int                         { return 0 }
func gh_visited[K comparable](k K) bool   { return false }
func gh_inDom[K comparable, V any](m map[K]V, k K) bool { _, ok := m[k]; return ok }
func gh_mapLen[K comparable, V any](m map[K]V) int { return len(m) }
func gh_uf(name string, args ...any) int  { return 0 }
func gh_ufb(name string, args ...any) bool { return false }
func gh_ufr[T any](name string, args ...any) T { var z T; return z }
func gh_argAs[T any](i int) T { var z T; return z }
func gh_local[T any](name string) T { var z T; return z }
func gh_argc() int { return 0 }
func gh_div(a, b int) int                 { return a / b }
func gh_mod(a, b int) int                 { return a % b }
func gh_abs(a int) int                    { if a < 0 { return -a }; return a }
func gh_min(a, b int) int                 { if a < b { return a }; return b }
func gh_max(a, b int) int                 { if a < b { return b }; return a }
func gh_wrote() int                       { return 0 }
func gh_hdr[T any](x T) T                { return x }
func gh_kvDomain() int                    { return 0 }
func gh_kvState() int                     { return 0 }
func gh_kvHas(k int) bool                 { return false }
func gh_kvVal(k int) int                  { return 0 }
func gh_kvWrites() int                    { return 0 }
func gh_chanSends() int                   { return 0 }
func gh_sameVal[T any](a, b T) bool       { return false }
func gh_bytesId(b []byte) int             { return 0 }
func gh_keyId(b []byte) int               { return 0 }
func gh_keyOf(kf any, args ...any) int    { return 0 }
func gh_sameRef(a, b any) bool            { return false }
func gh_defined(a any) bool            { return false }
func gh_btHas(m any, k string) bool { return false }
func gh_btNil(m any, k string) bool { return false }
func gh_btBytes(m any, k string) int { return 0 }
func gh_argIs(i int, a any) bool            { return false }
func gh_arrOf[T any](x []T) *T            { return nil }
func gh_ordDet[T any](x []T) bool         { return false }
func gh_anyOf[T any](x T) T              { return x }
func gh_count(lo, hi int, f func(int) bool) int { return 0 }
func gh_unavail(err error) bool           { return err != nil }
func gh_errIs(err, target error) bool     { return err == target }
func gh_upd[K comparable, V any](m map[K]V, k K, v V) map[K]V { return m }
func gh_mapEq[K comparable, V any](a, b map[K]V) bool { return len(a) == len(b) }
`)
	for _, g := range ps.GhostTypes {
		b.WriteString(g + "\n")
	}
	for _, g := range ps.GhostVars {
		b.WriteString(g.Src + "\n")
	}
	for _, g := range ps.Ghosts {
		b.WriteString(renameBuiltins(rewriteGhostBody(g.Src)) + "\n")
	}
	return b.String()
}

// rewriteGhostBody rewrites the expression after `return` in a one-line ghost
// function so that it may use ==> and quantifiers.
func rewriteGhostBody(src string) string {
	i := strings.Index(src, "{")
	j := strings.LastIndex(src, "}")
	if i < 0 || j < i {
		return src
	}
	body := strings.TrimSpace(src[i+1 : j])
	if strings.HasPrefix(body, "return ") {
		return src[:i+1] + " return " + rewriteSpec(strings.TrimPrefix(body, "return ")) + " " + src[j:]
	}
	return src
}
