#!/bin/bash
# usage: tools_mut.sh <prop> <file> <sed-expr> [extra govc args]   — apply a one-line mutation to /repo, run the check, revert
prop=$1; file=$2; expr=$3; shift 3
cd /repo && sed -i "$expr" "$file" && git diff --stat | tail -1
if git diff --quiet; then echo "MUTATION DID NOT APPLY"; exit 9; fi
cd /verif && ./bin/govc check -prop $prop -no-evidence "$@" 2>&1 | grep -v "^  failed" | cut -c1-300 | tail -8
git -C /repo checkout -- .
