//go:build verif

// Contracts for committees (C11, C14) — comment-only.
package api

//@ ghost func Key(c *Committee, j int) signature.PublicKey { return c.Members[j].PublicKey }
//@ ghost func RoleAt(c *Committee, j int) Role { return c.Members[j].Role }
//@ ghost func InRange(c *Committee, j int) bool { return 0 <= j && j < len(c.Members) }
//@ import "github.com/oasisprotocol/oasis-core/go/common/crypto/signature"

//@ func Committee.IsMember
//@   props C11
//@   modifies nothing
//@   ensures result == (exists j int :: InRange(c, j) && Key(c, j) == id)
//@   loop 1 invariant forall j int :: 0 <= j && j < idx() ==> Key(c, j) != id

//@ func Committee.IsWorker
//@   props C11
//@   modifies nothing
//@   ensures result == (exists j int :: InRange(c, j) && Key(c, j) == id && (forall k int :: 0 <= k && k <= j ==> RoleAt(c, k) == RoleWorker))
//@   loop 1 invariant forall j int :: 0 <= j && j < idx() ==> Key(c, j) != id && RoleAt(c, j) == RoleWorker

//@ func Committee.IsBackupWorker
//@   props C11
//@   modifies nothing
//@   ensures result == (exists j int :: InRange(c, j) && Key(c, j) == id && (forall k int :: j <= k && k < len(c.Members) ==> RoleAt(c, k) == RoleBackupWorker))
//@   loop 1 invariant -1 <= i && i < len(c.Members)
//@   loop 1 invariant forall j int :: i < j && j < len(c.Members) ==> Key(c, j) != id && RoleAt(c, j) == RoleBackupWorker

//@ func Committee.SchedulerRank
//@   props C11
//@   modifies nothing
//@   ensures result1 == (exists j int :: InRange(c, j) && Key(c, j) == id && (forall k int :: 0 <= k && k <= j ==> RoleAt(c, k) == RoleWorker))
//@   ensures result1 ==> int(result0) < len(c.Members)
//@   ensures !result1 ==> result0 == 0
//@   loop 1 invariant int(total) == idx() && (forall k int :: 0 <= k && k < idx() ==> RoleAt(c, k) == RoleWorker)
//@   loop 1 invariant isWorker == (exists j int :: 0 <= j && j < idx() && Key(c, j) == id)
//@   loop 1 invariant isWorker ==> idx < total
