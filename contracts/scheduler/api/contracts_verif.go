//go:build verif

// Contracts for committees (C11, C14) — comment-only.
package api

//@ ghost func Key(c *Committee, j int) signature.PublicKey { return c.Members[j].PublicKey }
//@ ghost func RoleAt(c *Committee, j int) Role { return c.Members[j].Role }
//@ ghost func InRange(c *Committee, j int) bool { return 0 <= j && j < len(c.Members) }
//@ import "github.com/oasisprotocol/oasis-core/go/common/crypto/signature"

//@ func Committee.IsMember
//@   props C11
//@   modifies nothing
//@   ensures result == (exists j int :: InRange(c, j) && Key(c, j) == id)
//@   loop 1 invariant forall j int :: 0 <= j && j < idx() ==> Key(c, j) != id

//@ func Committee.IsWorker
//@   props C11
//@   modifies nothing
//@   ensures result == (exists j int :: InRange(c, j) && Key(c, j) == id && (forall k int :: 0 <= k && k <= j ==> RoleAt(c, k) == RoleWorker))
//@   loop 1 invariant forall j int :: 0 <= j && j < idx() ==> Key(c, j) != id && RoleAt(c, j) == RoleWorker

//@ func Committee.IsBackupWorker
//@   props C11
//@   modifies nothing
//@   ensures result == (exists j int :: InRange(c, j) && Key(c, j) == id && (forall k int :: j <= k && k < len(c.Members) ==> RoleAt(c, k) == RoleBackupWorker))
//@   loop 1 invariant -1 <= i && i < len(c.Members)
//@   loop 1 invariant forall j int :: i < j && j < len(c.Members) ==> Key(c, j) != id && RoleAt(c, j) == RoleBackupWorker

//@ func Committee.SchedulerRank
//@   props C11
//@   modifies nothing
//@   ensures result1 == (exists j int :: InRange(c, j) && Key(c, j) == id && (forall k int :: 0 <= k && k <= j ==> RoleAt(c, k) == RoleWorker))
//@   ensures result1 ==> int(result0) < len(c.Members)
//@   ensures !result1 ==> result0 == 0
//@   loop 1 invariant int(total) == idx() && (forall k int :: 0 <= k && k < idx() ==> RoleAt(c, k) == RoleWorker)
//@   loop 1 invariant isWorker == (exists j int :: 0 <= j && j < idx() && Key(c, j) == id)
//@   loop 1 invariant isWorker ==> idx < total

// ---- voting power (C14) ----

//@ import "github.com/oasisprotocol/oasis-core/go/common/quantity"
//@ ghost func QV(q *quantity.Quantity) int { return quantity.Val(q) }
//@ global QV(&BaseUnitsPerVotingPower) == 16

//@ func VotingPowerFromStake
//@   props C14
//@   safety nil panic div
//@   requires t != nil && quantity.Val(t) >= 0
//@   modifies nothing
//@   ensures err == nil ==> result0 >= 1
//@   ensures err != nil ==> result0 == 0
//@   ensures distribution == VotingPowerDistributionLinear ==> (err == nil) == (div(quantity.Val(t), 16) <= 9223372036854775807)
//@   ensures err == nil && distribution == VotingPowerDistributionLinear ==> int(result0) == max(1, div(quantity.Val(t), 16))
//@   ensures err == nil && distribution == VotingPowerDistributionSqrt && quantity.Val(t) >= 1 ==> int(result0) * int(result0) <= quantity.Val(t) && quantity.Val(t) < (int(result0) + 1) * (int(result0) + 1)
//@   ensures err == nil && distribution == VotingPowerDistributionSqrt && quantity.Val(t) == 0 ==> result0 == 1
//@   note linear: one unit of power per 16 base units, at least 1; sqrt: the integer square root of the stake, at least 1; an error only when the power does not fit int64

//@ lemma votingPowerLinearMonotone(a int, b int)
//@   props C14
//@   requires 0 <= a && a <= b
//@   ensures max(1, div(a, 16)) <= max(1, div(b, 16))

//@ lemma votingPowerSqrtMonotone(a int, b int, ra int, rb int)
//@   props C14
//@   requires 1 <= a && a <= b && ra >= 1 && rb >= 1 && ra * ra <= a && a < (ra + 1) * (ra + 1) && rb * rb <= b && b < (rb + 1) * (rb + 1)
//@   ensures ra <= rb
//@   note voting power is non-decreasing in stake under both distributions (C14: "voting power non-decreasing in stake")
