//go:build verif

// Contracts for package common (comment-only).
package common

//@ func Namespace.Equal
//@   trusted
//@   pure
//@   ensures n != nil && cmp != nil ==> result == (*n == *cmp)
//@   ensures n == nil || cmp == nil ==> result == sameRef(n, cmp)
//@   note byte-wise comparison of two 32-byte namespaces (bytes.Equal over the arrays)
