//go:build verif

// Contracts for signature primitives (comment-only).
package signature

//@ func PublicKey.Equal
//@   trusted
//@   pure
//@   ensures result == (k == cmp)
