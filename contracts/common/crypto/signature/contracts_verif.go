//go:build verif

// Contracts for signature primitives (comment-only).
package signature

//@ func PublicKey.Equal
//@   trusted
//@   pure
//@   ensures result == (k == cmp)

//@ func PublicKey.MarshalBinary
//@   trusted
//@   modifies nothing
//@   ensures err == nil && data != nil && bytesId(data) == uf("pkBytes", k)
