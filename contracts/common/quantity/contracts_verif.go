//go:build verif

// Contracts for package quantity (comment-only; see /verif/DESIGN.md §2.1).
// Val(q) is the mathematical value of q; validity is Val(q) >= 0.
package quantity

//@ ghost func Val(q *Quantity) int { return bigval(&q.inner) }

//@ global bigval(&zero) == 0
// note: the package-private variable `zero` is never written (closure-checked by grep in the check driver)

//@ func isValid
//@   props C05 C15
//@   modifies nothing
//@   ensures result == (bigval(n) >= 0)

//@ func Quantity.IsValid
//@   props C05 C15
//@   modifies nothing
//@   ensures result == (Val(q) >= 0)

//@ func Quantity.IsZero
//@   props C05 C15
//@   modifies nothing
//@   ensures result == (Val(q) == 0)

//@ func Quantity.Cmp
//@   props C05 C15
//@   modifies nothing
//@   ensures result == ite(Val(q) < Val(n), -1, ite(Val(q) == Val(n), 0, 1))

//@ func Quantity.Clone
//@   props C05 C15
//@   modifies nothing
//@   ensures fresh(result) && Val(result) == Val(q)

//@ func NewQuantity
//@   props C05 C15
//@   modifies nothing
//@   ensures fresh(q) && Val(q) == 0

//@ func Quantity.FromBigInt
//@   props C05 C15
//@   modifies q
//@   ensures (n == nil || old(bigval(n)) < 0) ==> err == ErrInvalidQuantity && Val(q) == old(Val(q))
//@   ensures n != nil && old(bigval(n)) >= 0 ==> err == nil && Val(q) == old(bigval(n))

//@ func Quantity.FromUint64
//@   props C05 C15
//@   modifies q
//@   ensures err == nil && Val(q) == int(n)

//@ func Quantity.FromInt64
//@   props C05 C15
//@   modifies q
//@   ensures n < 0 ==> err == ErrInvalidQuantity && Val(q) == old(Val(q))
//@   ensures n >= 0 ==> err == nil && Val(q) == int(n)

//@ func NewFromUint64
//@   props C05 C15
//@   safety panic
//@   modifies nothing
//@   ensures fresh(result) && Val(result) == int(n)

//@ func Quantity.ToBigInt
//@   props C05 C15
//@   modifies nothing
//@   ensures fresh(result) && bigval(result) == Val(q)

//@ func Quantity.Add
//@   props C05 C15
//@   modifies q
//@   ensures (n == nil || old(Val(n)) < 0) ==> err == ErrInvalidQuantity && Val(q) == old(Val(q))
//@   ensures n != nil && old(Val(n)) >= 0 ==> err == nil && Val(q) == old(Val(q)) + old(Val(n))

//@ func Quantity.Sub
//@   props C05 C15
//@   modifies q
//@   ensures (n == nil || old(Val(n)) < 0) ==> err == ErrInvalidQuantity && Val(q) == old(Val(q))
//@   ensures n != nil && old(Val(n)) >= 0 && old(Val(q)) < old(Val(n)) ==> err == ErrInsufficientBalance && Val(q) == old(Val(q))
//@   ensures n != nil && old(Val(n)) >= 0 && old(Val(q)) >= old(Val(n)) ==> err == nil && Val(q) == old(Val(q)) - old(Val(n))

//@ func Quantity.SubUpTo
//@   props C05 C15
//@   modifies q
//@   ensures (n == nil || old(Val(n)) < 0) ==> err == ErrInvalidQuantity && result0 == nil && Val(q) == old(Val(q))
//@   ensures n != nil && old(Val(n)) >= 0 ==> err == nil && fresh(result0) && Val(result0) == min(old(Val(q)), old(Val(n))) && Val(q) == old(Val(q)) - Val(result0)

//@ func Quantity.Mul
//@   props C05 C15
//@   modifies q
//@   ensures (n == nil || old(Val(n)) < 0) ==> err == ErrInvalidQuantity && Val(q) == old(Val(q))
//@   ensures n != nil && old(Val(n)) >= 0 ==> err == nil && Val(q) == old(Val(q)) * old(Val(n))

//@ func Quantity.Quo
//@   props C05 C15
//@   safety div
//@   modifies q
//@   ensures (n == nil || old(Val(n)) <= 0) ==> err == ErrInvalidQuantity && Val(q) == old(Val(q))
//@   ensures n != nil && old(Val(n)) > 0 ==> err == nil && Val(q) == div(old(Val(q)), old(Val(n)))

//@ func Move
//@   props C05 C15
//@   modifies dst, src
//@   ensures (dst == nil || src == nil) ==> err == ErrInvalidAccount
//@   ensures err != nil ==> (dst != nil ==> Val(dst) == old(Val(dst))) && (src != nil ==> Val(src) == old(Val(src)))
//@   ensures dst != nil && src != nil && (n == nil || old(Val(n)) < 0) ==> err == ErrInvalidQuantity
//@   ensures dst != nil && src != nil && n != nil && old(Val(n)) >= 0 && old(Val(src)) < old(Val(n)) ==> err == ErrInsufficientBalance
//@   ensures dst != nil && src != nil && n != nil && old(Val(n)) >= 0 && old(Val(src)) >= old(Val(n)) ==> err == nil
//@   ensures err == nil && dst != src ==> Val(dst) == old(Val(dst)) + old(Val(n)) && Val(src) == old(Val(src)) - old(Val(n))
//@   ensures err == nil && dst == src ==> Val(dst) == old(Val(dst))

//@ func MoveUpTo
//@   props C05 C15
//@   requires src == nil || Val(src) >= 0
//@   modifies dst, src
//@   ensures (dst == nil || src == nil) ==> err == ErrInvalidAccount && result0 == nil
//@   ensures err != nil ==> (dst != nil ==> Val(dst) == old(Val(dst))) && (src != nil ==> Val(src) == old(Val(src)))
//@   ensures dst != nil && src != nil && (n == nil || old(Val(n)) < 0) ==> err == ErrInvalidQuantity
//@   ensures dst != nil && src != nil && n != nil && old(Val(n)) >= 0 ==> err == nil && fresh(result0) && Val(result0) == min(old(Val(src)), old(Val(n)))
//@   ensures err == nil && dst != src ==> Val(dst) == old(Val(dst)) + Val(result0) && Val(src) == old(Val(src)) - Val(result0)
//@   ensures err == nil && dst == src ==> Val(dst) == old(Val(dst))
