//go:build verif

// Contracts for entity descriptors (comment-only).
package entity

//@ func SignedEntity.Open
//@   props C17
//@   modifies entity
//@   ensures err == nil ==> old(signature.SigOK(s.Signature.PublicKey, context, s.Blob, s.Signature.Signature))

//@ func Entity.ValidateBasic
//@   trusted
//@   modifies nothing
