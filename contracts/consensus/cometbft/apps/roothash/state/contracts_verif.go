//go:build verif

// Contracts for the roothash application state accessors (comment-only).
// The accessors run against the ghost state tree (T-KV); writes are attributed
// to the tree object they go through (api.GTreeW).
package state

//@ import "github.com/oasisprotocol/oasis-core/go/consensus/cometbft/api"

//@ func ImmutableState.ConsensusParameters
//@   props C08
//@   requires s != nil
//@   modifies nothing
//@   ensures err != nil ==> result0 == nil
//@   ensures err == nil ==> result0 != nil

//@ func ImmutableState.IncomingMessageQueueMeta
//@   props C08
//@   requires s != nil
//@   modifies nothing
//@   ensures err != nil ==> result0 == nil && unavail(err)
//@   ensures err == nil ==> result0 != nil && fresh(result0)

//@ func ImmutableState.RuntimeState
//@   trusted
//@   modifies nothing
//@   ensures err != nil ==> result0 == nil
//@   ensures err == nil ==> result0 != nil && result0.Runtime != nil
//@   note decodes the stored runtime state (CBOR); a stored state always carries its runtime descriptor

//@ func MutableState.SetIncomingMessageInQueue
//@   props C08
//@   requires s != nil && msg != nil
//@   modifies kvState()
//@   ensures api.OnlyTree(s.ms)
//@   ensures err != nil ==> unavail(err)

//@ func MutableState.SetIncomingMessageQueueMeta
//@   props C08
//@   requires s != nil
//@   modifies kvState()
//@   ensures api.OnlyTree(s.ms)
//@   ensures err != nil ==> unavail(err)
