//go:build verif

// Contracts for the roothash application transaction handlers (comment-only).
package roothash

//@ import abciAPI "github.com/oasisprotocol/oasis-core/go/consensus/cometbft/api"
//@ import "github.com/oasisprotocol/oasis-core/go/common/quantity"

//@ ghost func QV(q *quantity.Quantity) int { return quantity.Val(q) }
//@ ghost func outerUntouched(ctx *abciAPI.Context) bool { return abciAPI.GTreeW[old(abciAPI.TreeOf(ctx))] == old(abciAPI.GTreeW[abciAPI.TreeOf(ctx)]) }

//@ func Application.getRuntimeState
//@   props C08
//@   requires state != nil
//@   modifies nothing
//@   ensures err != nil ==> result0 == nil
//@   ensures err == nil ==> result0 != nil && result0.Runtime != nil

//@ func Application.submitMsg
//@   props C08
//@   requires app != nil && ctx != nil && state != nil && msg != nil
//@   requires QV(&msg.Fee) >= 0 && QV(&msg.Tokens) >= 0 && allocated(abciAPI.TreeOf(ctx))
//@   ensures err != nil && !unavail(err) ==> abciAPI.GTreeW[old(abciAPI.TreeOf(ctx))] == old(abciAPI.GTreeW[abciAPI.TreeOf(ctx)])
//@   ensures err == nil && (old(abciAPI.IsCheck(ctx)) || old(abciAPI.IsSim(ctx))) ==> abciAPI.GTreeW[old(abciAPI.TreeOf(ctx))] == old(abciAPI.GTreeW[abciAPI.TreeOf(ctx)])
//@   ensures err == nil && !old(abciAPI.IsCheck(ctx)) && !old(abciAPI.IsSim(ctx)) ==> abciAPI.GCommits == old(abciAPI.GCommits) + 1
//@   ensures err != nil ==> abciAPI.GCommits == old(abciAPI.GCommits)
//@   note the token transfer runs in a transaction context (overlay); every failing return before Commit leaves the tree the handler was entered with unwritten
