//go:build verif

// Contracts for the scheduler application state accessors (comment-only).
package state

//@ func ImmutableState.CurrentValidators
//@   trusted
//@   modifies nothing
//@   ensures err != nil ==> result0 == nil
//@   ensures err == nil ==> forall k signature.PublicKey :: inDom(result0, k) ==> result0[k] != nil
//@   note decodes the stored current validator map; stored maps never hold nil validators (written by electValidators, whose call-site obligation on PutPendingValidators proves it, and by InitChain)

//@ func ImmutableState.PendingValidators
//@   trusted
//@   modifies nothing
//@   ensures err != nil ==> result0 == nil
//@   ensures err == nil ==> forall k signature.PublicKey :: inDom(result0, k) ==> result0[k] != nil

//@ func MutableState.PutPendingValidators
//@   props C14
//@   modifies kvState()
//@   ensures err != nil ==> unavail(err)

//@ func MutableState.PutCurrentValidators
//@   props C14
//@   modifies kvState()
//@   ensures err != nil ==> unavail(err)
