//go:build verif

// Contracts for the registry application's transaction handlers (C17, C08).
// Comment-only.
package registry

//@ import registryState "github.com/oasisprotocol/oasis-core/go/consensus/cometbft/apps/registry/state"
//@ import "github.com/oasisprotocol/oasis-core/go/consensus/cometbft/api"
//@ import stakingState "github.com/oasisprotocol/oasis-core/go/consensus/cometbft/apps/staking/state"

//@ ghost func noWrites() bool { return (forall k int :: kvHas(k) == old(kvHas(k)) && kvVal(k) == old(kvVal(k))) && stakingState.GWrites == old(stakingState.GWrites) }
//@ ghost func Deliver(ctx *api.Context) bool { return !api.IsCheck(ctx) && !api.IsSim(ctx) }

//@ func Application.registerEntity
//@   props C17 C08
//@   requires ctx != nil && state != nil
//@   ensures err == nil && old(Deliver(ctx)) && !old(api.IsInit(ctx)) ==> sigEnt != nil && sigEnt.Signature.PublicKey == old(api.Signer(ctx))
//@   ensures err == nil && old(Deliver(ctx)) ==> kvHas(registryState.EntityKey(sigEnt.Signature.PublicKey))
//@   ensures err == nil && !old(Deliver(ctx)) ==> noWrites()
//@   ensures err != nil && !unavail(err) ==> noWrites()

//@ func Application.deregisterEntity
//@   props C17 C08
//@   requires ctx != nil && state != nil
//@   ensures err == nil && old(Deliver(ctx)) ==> !kvHas(registryState.EntityKey(old(api.Signer(ctx))))
//@   ensures err == nil && old(Deliver(ctx)) ==> !old(registryState.OwnsNodes(api.Signer(ctx))) && !old(registryState.OwnsRuntimes(api.Signer(ctx)))
//@   ensures old(Deliver(ctx)) && (err == nil || !unavail(err)) ==> (forall k int :: k != registryState.EntityKey(old(api.Signer(ctx))) ==> kvHas(k) == old(kvHas(k)))
//@   ensures err == nil && !old(Deliver(ctx)) ==> noWrites()
//@   ensures err != nil && !unavail(err) ==> noWrites()
