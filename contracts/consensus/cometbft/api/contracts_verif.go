//go:build verif

// Contracts for the ABCI application API (comment-only).
package api

//@ func UnavailableStateError
//@   trusted
//@   pure
//@   ensures err == nil ==> result == nil
//@   ensures err != nil ==> result != nil && unavail(result)

//@ func IsUnavailableStateError
//@   trusted
//@   pure
//@   ensures result == unavail(err)

// ---- context modes ----

//@ ghost func IsCheck(c *Context) bool { return c.mode == ContextCheckTx }
//@ ghost func IsSim(c *Context) bool { return c.mode == ContextSimulateTx }
//@ ghost func IsInit(c *Context) bool { return c.mode == ContextInitChain }

//@ func Context.IsCheckOnly
//@   props C08 C09
//@   modifies nothing
//@   ensures result == IsCheck(c)

//@ func Context.IsSimulation
//@   props C08 C09
//@   modifies nothing
//@   ensures result == IsSim(c)

//@ func Context.IsInitChain
//@   props C08
//@   modifies nothing
//@   ensures result == IsInit(c)

//@ func Context.SetGasAccountant
//@   props C08 C09
//@   modifies c.gasAccountant

//@ ghost func Signer(c *Context) signature.PublicKey { return c.txSigner }
//@ import "github.com/oasisprotocol/oasis-core/go/common/crypto/signature"

//@ func Context.TxSigner
//@   props C08 C09 C17
//@   modifies nothing
//@   ensures result == Signer(c)
