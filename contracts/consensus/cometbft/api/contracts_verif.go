//go:build verif

// Contracts for the ABCI application API (comment-only).
package api

//@ func UnavailableStateError
//@   trusted
//@   pure
//@   ensures err == nil ==> result == nil
//@   ensures err != nil ==> result != nil && unavail(result)

//@ func IsUnavailableStateError
//@   trusted
//@   pure
//@   ensures result == unavail(err)
