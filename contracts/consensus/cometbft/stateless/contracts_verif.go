//go:build verif

// Contracts for the stateless (light-client backed) consensus backend (C19).
// Comment-only. Hashing, (un)marshalling and Merkle verification of CometBFT
// types are deterministic functions of their arguments (pure: entries in
// contracts/noeffect.txt); the contracts state which light-block field each
// piece of provider data is bound to on the success path.
package stateless

//@ func verifyBlock
//@   props C19
//@   requires blk != nil && lb != nil && lb.Height >= 1
//@   ensures err == nil ==> blk.Height == lb.Height
//@   ensures err == nil ==> blk.Hash == ufr[hash.Hash]("loadHex", uf("headerHash", lb.Header))
//@   ensures err == nil ==> ufr[time.Time]("timeUTC", blk.Time) == ufr[time.Time]("timeTruncate", ufr[time.Time]("timeUTC", lb.Header.Time), time.Second)
//@   ensures err == nil ==> blk.StateRoot.Version == uint64(lb.Height) - 1 && blk.StateRoot.Type == mkvsNode.RootTypeState
//@   ensures err == nil ==> bytesId(blk.StateRoot.Hash[:]) == bytesId(lb.Header.AppHash)
//@   ensures err == nil ==> uf("cbor.BlockMeta.Header", old(bytesId(blk.Meta))) == uf("headerProtoMarshal.0", ufr[*cmtproto.Header]("headerToProto", lb.Header))
//@   ensures-local err == nil ==> uf("commitHash", lastCommit) == bytesId(lb.LastCommitHash) && lastCommit == ufr[*cmttypes.Commit]("commitFromProto.0", &lastCommitProto)
//@   note binds: Height, Hash, Time, StateRoot{Namespace,Version,Type,Hash}, Meta{Header,LastCommit}; unbound: Size (the code says it cannot be verified)
