//go:build verif

// Contracts for the ABCI multiplexer state (C01, narrow): the execution
// results cached for a proposal are reused only for an equal proposal.
// Comment-only.
package abci

//@ func proposalState.needsExecution
//@   props C01
//@   safety nil
//@   requires ps != nil
//@   modifies nothing
//@   ensures result == (ps.resultsBeginBlock == nil || ps.resultsDeliverTx == nil || ps.resultsEndBlock == nil)

//@ func proposalState.reset
//@   props C01
//@   safety nil
//@   requires ps != nil
//@   modifies *ps
//@   ensures ps.header == nil && ps.txs == nil && ps.hash == nil && ps.tree == nil && ps.resultsBeginBlock == nil && ps.resultsDeliverTx == nil && ps.resultsEndBlock == nil

//@ func proposalState.isEqual
//@   props C01
//@   safety nil bounds
//@   requires ps != nil && header != nil
//@   ensures result ==> ps.header != nil && ufb("protoEqual", header, ps.header) && len(txs) == len(ps.txs) && len(misbehavior) == len(ps.misbehavior)
//@   ensures result ==> forall i int :: 0 <= i && i < len(txs) ==> bytesId(txs[i]) == bytesId(ps.txs[i])
//@   ensures result ==> forall i int :: 0 <= i && i < len(misbehavior) ==> ufb("protoEqual", &misbehavior[i], &ps.misbehavior[i])
//@   loop 1 invariant ps.header != nil && ufb("protoEqual", header, ps.header) && len(txs) == len(ps.txs) && len(misbehavior) == len(ps.misbehavior)
//@   loop 2 invariant ps.header != nil && ufb("protoEqual", header, ps.header) && len(txs) == len(ps.txs) && len(misbehavior) == len(ps.misbehavior)
//@   loop 1 invariant forall j int :: 0 <= j && j < idx() ==> bytesId(txs[j]) == bytesId(ps.txs[j])
//@   loop 2 invariant forall j int :: 0 <= j && j < idx() ==> ufb("protoEqual", &misbehavior[j], &ps.misbehavior[j])
//@   loop 2 invariant forall j int :: 0 <= j && j < len(txs) ==> bytesId(txs[j]) == bytesId(ps.txs[j])
//@   note a cached proposal is "equal" only if the header, every transaction (byte for byte, in order) and every piece of misbehaviour evidence are equal

//@ func proposalState.setResults
//@   props C01
//@   safety nil
//@   requires ps != nil
//@   modifies *ps
//@   ensures ps.resultsBeginBlock == resultsBeginBlock && ps.resultsEndBlock == resultsEndBlock

//@ func applicationState.resetProposal
//@   trusted
//@   requires s != nil
//@   modifies s.proposal, s.canonicalState, *old(s.proposal)
//@   ensures s.proposal != nil && fresh(s.proposal) && s.proposal.resultsBeginBlock == nil && s.proposal.resultsDeliverTx == nil && s.proposal.resultsEndBlock == nil && s.proposal.header == nil && s.proposal.hash == nil
//@   note installs a fresh proposal state over a new overlay of the canonical state; nothing of the previous proposal's results survives (tree construction is outside the contracts)

//@ func applicationState.resetProposalIfChanged
//@   props C01
//@   safety nil
//@   requires s != nil
//@   ensures !result ==> s.proposal == old(s.proposal) && s.proposal != nil && old(bytesId(s.proposal.hash)) == bytesId(h)
//@   ensures !result ==> s.proposal.resultsBeginBlock == old(s.proposal.resultsBeginBlock) && s.proposal.resultsEndBlock == old(s.proposal.resultsEndBlock)
//@   ensures result ==> s.proposal != nil && s.proposal.resultsBeginBlock == nil && s.proposal.resultsDeliverTx == nil && s.proposal.resultsEndBlock == nil
//@   note cached execution results survive into BeginBlock/DeliverTx/EndBlock only if the block's hash equals the hash of the proposal they were computed for; otherwise the block is (re-)executed from the canonical state

// ---- state pruner (C06): never prune inside the keep-N window ----

//@ func genericPruner.Prune
//@   props C06
//@   requires p != nil && latestVersion <= 9223372036854775807
//@   precall db/api\.NodeDB\)\.Prune$ :: latestVersion >= old(p.keepN) && argAs[uint64](0) < preserveFrom && int(preserveFrom) + int(old(p.keepN)) == int(latestVersion) && (forall j int :: 0 <= j && j < len(p.handlers) ==> ufr[error]("CanPruneConsensus", p.handlers[j], int64(argAs[uint64](0))) == nil)
//@   precall db/api\.NodeDB\)\.Sync$ :: true
//@   loop 1 invariant p.keepN == old(p.keepN)
//@   note a version is handed to NodeDB.Prune only if it is more than keepN versions behind the latest one and every registered prune handler allowed it

//@ func genericPruner.canPrune
//@   props C06
//@   requires p != nil
//@   modifies nothing
//@   loop 1 invariant forall j int :: 0 <= j && j < idx() ==> ufr[error]("CanPruneConsensus", p.handlers[j], v) == nil
//@   ensures err == nil ==> (forall j int :: 0 <= j && j < len(p.handlers) ==> ufr[error]("CanPruneConsensus", p.handlers[j], v) == nil)
//@   note nil is returned only if every registered handler was asked about exactly this version and answered nil; a handler's answer is treated as a function of (handler, version) (noeffect.txt pure:CanPruneConsensus)
