//go:build verif

// Contracts for consensus transactions (comment-only).
package transaction

//@ func Fee.GasPrice
//@   trusted
//@   modifies nothing
//@   ensures result != nil
