//go:build verif

// Contracts for the storage API helpers (C13): applying a received write log
// (comment-only).
package api

//@ ghost var GCommitKnownOK int
//@ ghost var GApplyOK int

//@ func RootCache.Apply
//@   props C13
//@   requires rc != nil
//@   precall mkvs\.Tree\)\.ApplyWriteLog$ :: !ufb("hasRoot", rc.localDB, expectedNewRoot)
//@   precall mkvs\.Tree\)\.CommitKnown$ :: argIs(1, expectedNewRoot) && GApplyOK == old(GApplyOK) + 1 && GCommitKnownOK == old(GCommitKnownOK)
//@   ensures err != nil ==> result0 == nil
//@   ensures err == nil ==> result0 != nil && *result0 == old(expectedNewRoot.Hash)
//@   ensures err == nil ==> old(ufb("hasRoot", rc.localDB, expectedNewRoot)) || GCommitKnownOK == old(GCommitKnownOK) + 1
//@   ensures GCommitKnownOK <= old(GCommitKnownOK) + 1
//@   note success means: the expected root was already stored, or the tree built from the old root and the received write log was committed with CommitKnown(expectedNewRoot) - which persists only if the computed hash equals the expected one (tree.CommitKnown contract) - and that call returned nil
