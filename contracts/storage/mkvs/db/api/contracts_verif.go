//go:build verif

// Ghost call counters for the node database interfaces (comment-only).
// NodeDB and Batch are interfaces; their implementations (badger, pathbadger)
// are outside the contracts. What the callers under contract can be held to
// is WHEN they call them: the `bump:` entries of contracts/noeffect.txt count
// every call made by verified code.
package api

//@ ghost var GBatchCommits int
//@ ghost var GBatchPuts int
//@ ghost var GNewBatches int
//@ ghost var GFinalizes int
//@ ghost var GBatchCommitsOK int
