//go:build verif

// Contracts for the badger node database (C06, narrow): what Prune is allowed to
// remove. Comment-only.
package badger

//@ func metadata.getEarliestVersion
//@   props C06
//@   requires m != nil
//@   modifies nothing
//@   ensures result == m.value.EarliestVersion

//@ func metadata.getLastFinalizedVersion
//@   props C06
//@   requires m != nil
//@   modifies nothing
//@   ensures result1 == (m.value.LastFinalizedVersion != nil)
//@   ensures result1 ==> result0 == *m.value.LastFinalizedVersion

//@ func badgerNodeDB.Prune
//@   props C06
//@   requires d != nil
//@   ensures err == nil ==> !old(d.readOnly) && old(d.multipartVersion) == multipartVersionNone
//@   ensures err == nil ==> old(d.meta.value.LastFinalizedVersion) != nil && version < old(*d.meta.value.LastFinalizedVersion) && version == old(d.meta.value.EarliestVersion)
//@   precall badger/v4\.WriteBatch\)\.Delete$ :: exists && version < lastFinalizedVersion
//@   note data is removed only for a version that is finalized, is the earliest retained one and is not the last finalized one, and never on a read-only database or while a multipart restore is in progress: every other finalized version is left alone by Prune
