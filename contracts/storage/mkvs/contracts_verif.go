//go:build verif

// Contracts for the MKVS package (comment-only).
package mkvs

//@ func NewOverlay
//@   trusted
//@   modifies nothing
//@   ensures fresh(result)
//@   note an overlay is a new tree object layered over inner; nothing is written to inner until Commit
