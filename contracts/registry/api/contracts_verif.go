//go:build verif

// Contracts for registry argument verification (C17) — comment-only.
package api

//@ func VerifyRegisterEntityArgs
//@   props C17
//@   modifies nothing
//@   ensures err != nil ==> result0 == nil
//@   ensures err == nil ==> sigEnt != nil && result0 != nil && sigEnt.Signature.PublicKey == result0.ID
//@   note an entity descriptor is accepted only if it is signed by the entity's own key (Signed.Open verified the signature; SanityCheck binds the signer to ent.ID)

// ---- runtime staking address (C17: stake claims mirror registrations) ----

//@ import staking "github.com/oasisprotocol/oasis-core/go/staking/api"
//@ ghost func RtHasAddr(r *Runtime) bool { return r.GovernanceModel == GovernanceEntity || r.GovernanceModel == GovernanceRuntime }
//@ ghost func RtAddr(r *Runtime) staking.Address { return ite(r.GovernanceModel == GovernanceEntity, staking.AddrOf(r.EntityID), ufr[staking.Address]("runtimeAddrOf", r.ID)) }

//@ func Runtime.StakingAddress
//@   props C17
//@   requires r != nil
//@   modifies nothing
//@   ensures result1 == RtHasAddr(r)
//@   ensures result1 ==> result0 != nil && fresh(result0) && *result0 == RtAddr(r)
//@   ensures !result1 ==> result0 == nil
