//go:build verif

// Contracts for registry argument verification (C17) — comment-only.
package api

//@ func VerifyRegisterEntityArgs
//@   props C17
//@   modifies nothing
//@   ensures err != nil ==> result0 == nil
//@   ensures err == nil ==> sigEnt != nil && result0 != nil && sigEnt.Signature.PublicKey == result0.ID
//@   note an entity descriptor is accepted only if it is signed by the entity's own key (Signed.Open verified the signature; SanityCheck binds the signer to ent.ID)
