#!/bin/bash
# Copies the contract mirror /verif/contracts/**/contracts_verif.go into /repo/go/** and commits
# them there as a hook commit (comment-only files behind the build tag `verif`).
set -e
cd /verif/contracts
changed=0
for f in $(find . -name contracts_verif.go | sort); do
  d=$(dirname "$f")
  if [ ! -d "/repo/go/$d" ]; then echo "skip $d (no such package)"; continue; fi
  if ! cmp -s "$f" "/repo/go/$d/contracts_verif.go"; then
    cp "$f" "/repo/go/$d/contracts_verif.go"; changed=1
  fi
  git -C /repo add "go/$d/contracts_verif.go"
done
if ! git -C /repo diff --cached --quiet; then
  git -C /repo commit -q -m "verif-hook: contract comments for deductive verification (comment-only files, build tag verif)"
  echo "committed: $(git -C /repo log --oneline -1)"
else
  echo "no changes"
fi
