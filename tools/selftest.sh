#!/bin/bash
# Must-fail corpus: every patch in selftest/mutants is applied to a scratch worktree of /repo;
# the property's check must report a VIOLATION naming (at least) the expected obligations.
# usage: tools/selftest.sh [name-substring]
set -u
here="$(cd "$(dirname "$0")/.." && pwd)"
tmp=$(mktemp -d "${TMPDIR:-/tmp}/govc-selftest.XXXXXX")
trap 'git -C /repo worktree remove --force "$tmp/wt" >/dev/null 2>&1; rm -rf "$tmp"' EXIT
git -C /repo worktree add --detach "$tmp/wt" HEAD >/dev/null 2>&1 || { echo "cannot create worktree"; exit 2; }
# uncommitted changes of /repo are not part of the baseline for mutants
fail=0; n=0
for patch in "$here"/selftest/mutants/*.patch; do
  name=$(basename "$patch" .patch)
  case "$name" in *"${1:-}"*) ;; *) continue;; esac
  meta="$here/selftest/mutants/$name.json"
  prop=$(python3 -c "import json;print(json.load(open('$meta'))['property'])")
  if [ -n "${SELFTEST_PROP:-}" ] && [ "$prop" != "$SELFTEST_PROP" ]; then continue; fi
  git -C "$tmp/wt" checkout -q -- . ; git -C "$tmp/wt" clean -fdq
  if ! git -C "$tmp/wt" apply "$patch" 2>/dev/null; then echo "SELFTEST $name: patch does not apply (stale)"; fail=1; continue; fi
  out=$(GOVC_REPO="$tmp/wt" GOVC_TMP="$tmp/work" "$here/bin/govc" check -prop "$prop" -no-evidence -no-replay -verif "$here" 2>&1)
  n=$((n+1))
  ok=1
  for obl in $(python3 -c "import json;print(' '.join(json.load(open('$meta'))['expect_obligations']))"); do
    if ! grep -qF "failed obligation: $obl " <<<"$out"; then ok=0; echo "SELFTEST $name: expected failing obligation not reported: $obl"; fi
  done
  if ! grep -q "^VIOLATION property=$prop " <<<"$out"; then ok=0; echo "SELFTEST $name: no VIOLATION line"; fi
  if [ $ok = 1 ]; then echo "SELFTEST $name: detected ($prop)"; else fail=1; echo "$out" | tail -5; fi
done
# seeded changes from independent sub-agents: each must produce a VIOLATION of its property
for d in "$here"/seeded/*/; do
  name=$(basename "$d")
  case "$name" in *"${1:-}"*) ;; *) continue;; esac
  [ -f "$d/patch.diff" ] || continue
  prop=$(python3 -c "import json;print(json.load(open('$d/meta.json'))['property'])")
  if [ -n "${SELFTEST_PROP:-}" ] && [ "$prop" != "$SELFTEST_PROP" ]; then continue; fi
  if [ "$(python3 -c "import json;print(json.load(open('$d/meta.json')).get('known_miss',False))")" = "True" ]; then echo "SELFTEST seed $name: documented miss, not part of the must-fail corpus ($prop)"; continue; fi
  git -C "$tmp/wt" checkout -q -- . ; git -C "$tmp/wt" clean -fdq
  if ! git -C "$tmp/wt" apply "$d/patch.diff" 2>/dev/null; then echo "SELFTEST seed $name: patch does not apply (stale)"; fail=1; continue; fi
  out=$(GOVC_REPO="$tmp/wt" GOVC_TMP="$tmp/work" "$here/bin/govc" check -prop "$prop" -no-evidence -no-replay -verif "$here" 2>&1)
  n=$((n+1))
  if grep -q "^VIOLATION property=$prop " <<<"$out"; then echo "SELFTEST seed $name: detected ($prop)"; else fail=1; echo "SELFTEST seed $name: NOT detected ($prop)"; echo "$out" | tail -3; fi
done
echo "selftest: $n mutants run, failures=$fail"
exit $fail
