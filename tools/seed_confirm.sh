#!/bin/bash
# usage: tools/seed_confirm.sh <seed-dir-with-out/> <name> — confirm a seeded change in a scratch worktree and run our check on it
# Confirms: patch applies to /repo HEAD, demo fails with it and passes without it, package tests pass with it. Then runs ./bin/govc on the patched scratch tree.
set -u
src=$1; name=$2
here="$(cd "$(dirname "$0")/.." && pwd)"
export PATH=/opt/veriftools/go1.26.8/bin:$PATH GOTOOLCHAIN=local GOFLAGS=-mod=mod GOPROXY=off
prop=$(python3 -c "import json;print(json.load(open('$src/out/meta.json'))['property'])")
pkgdir=$(python3 -c "import json;print(json.load(open('$src/out/meta.json'))['package_dir_of_demo'])")
pkgdir=${pkgdir#go/}
tmp=$(mktemp -d /tmp/seedconfirm.XXXXXX)
trap 'git -C /repo worktree remove --force "$tmp/wt" >/dev/null 2>&1; rm -rf "$tmp"' EXIT
git -C /repo worktree add --detach "$tmp/wt" HEAD >/dev/null 2>&1
cd "$tmp/wt"
if ! git apply "$src/out/patch.diff"; then echo "SEED $name: patch does not apply"; exit 2; fi
cp "$src/out/zz_seed_demo_test.go" "go/$pkgdir/zz_seed_demo_test.go"
(cd go && timeout 1500 go test -count=1 -run 'SeedDemo' "./$pkgdir/" > "$tmp/with.log" 2>&1); with=$?
mv "go/$pkgdir/zz_seed_demo_test.go" "$tmp/demo.go"
(cd go && timeout 2400 go test -count=1 "./$pkgdir/" > "$tmp/pkg.log" 2>&1); pkg=$?
# our check on the patched tree
out=$(GOVC_REPO="$tmp/wt" GOVC_TMP="$tmp/work" "$here/bin/govc" check -prop "$prop" -no-evidence -no-replay -verif "$here" 2>&1 | grep "^VIOLATION\|failed obligation\|^property\|BROKEN" | cut -c1-260)
git apply -R "$src/out/patch.diff"
cp "$tmp/demo.go" "go/$pkgdir/zz_seed_demo_test.go"
(cd go && timeout 1500 go test -count=1 -run 'SeedDemo' "./$pkgdir/" > "$tmp/without.log" 2>&1); without=$?
echo "SEED $name ($prop): demo_with_change_exit=$with (want !=0) pkg_tests_with_change_exit=$pkg (want 0) demo_without_change_exit=$without (want 0)"
tail -3 "$tmp/with.log" | cut -c1-200
echo "--- our check on the changed tree:"
echo "$out" | head -8
if [ $with -ne 0 ] && [ $pkg -eq 0 ] && [ $without -eq 0 ]; then
  mkdir -p "$here/seeded/$name"
  cp "$src/out/patch.diff" "$src/out/zz_seed_demo_test.go" "$here/seeded/$name/"
  detected=false; grep -q "^VIOLATION property=$prop " <<<"$out" && detected=true
  python3 - "$src/out/meta.json" "$here/seeded/$name/meta.json" "$detected" <<'PY'
import json,sys
m=json.load(open(sys.argv[1]))
m['confirmed_by']='tools/seed_confirm.sh: scratch worktree of /repo HEAD; demo fails with the patch, passes without it; package tests pass with it'
m['detected_by_our_check']=(sys.argv[3]=='true')
json.dump(m,open(sys.argv[2],'w'),indent=1)
PY
  echo "SEED $name: kept in seeded/$name (detected=$detected)"
else
  echo "SEED $name: NOT confirmed"
fi
