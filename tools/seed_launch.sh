#!/bin/bash
# usage: tools/seed_launch.sh <prop-id> <tag> — create the scratch worktree /tmp/seedwt_<tag>, write the property text next to it and print the sub-agent prompt
# (the prompt carries the property text's path and a list of the functions earlier seeds changed, nothing from /verif's contracts)
set -eu
prop=$1; tag=$2
here="$(cd "$(dirname "$0")/.." && pwd)"
git -C /repo worktree add --detach /tmp/seedwt_$tag HEAD >/dev/null 2>&1
python3 - "$prop" "$tag" "$here" <<'PY'
import json,sys,glob,re
prop,tag,here=sys.argv[1:4]
for l in open(here+'/properties.jsonl'):
    p=json.loads(l)
    if p['id']==prop:
        json.dump({k:p[k] for k in ('id','title','statement','quantifier','anchors') if k in p},open('/tmp/seedwt_%s.prop.json'%tag,'w'),indent=1)
used=[]
for f in sorted(glob.glob(here+'/seeded/%s_*/patch.diff'%prop)):
    fn=set(); fl=set()
    for l in open(f):
        m=re.match(r'^@@.*@@ (.*)',l)
        if m:
            mm=re.search(r'func (\([^)]*\) )?(\w+)',m.group(1))
            if mm: fn.add(mm.group(2))
        m=re.match(r'^\+\+\+ b/(.*)',l)
        if m: fl.add(m.group(1))
    used.append('%s in %s'%('/'.join(sorted(fn)) or '(top of file)', ', '.join(sorted(fl))))
hint=''
if used:
    hint='Earlier evaluators already delivered changes in these places for this property; do NOT repeat them or close variants - pick a different function (preferably a different file or layer) among the anchors or the code they rely on: '+'; '.join(used)+'. Prefer a change that needs something specific to manifest (a multi-step sequence of operations, an unusual input, a fault at a particular point, or two cooperating sites that each look fine alone), not one that ordinary use exposes at once.'
t=open(here+'/tools/seed_prompt.tmpl').read().replace('@ID@',tag).replace('@HINT@',hint)
open('/tmp/seedwt_%s.prompt.txt'%tag,'w').write(t)
PY
echo /tmp/seedwt_$tag.prompt.txt
