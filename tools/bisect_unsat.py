#!/usr/bin/env python3
"""Debug helper: given an SMT file whose assertions are unsat, find the shortest prefix of assertions that is already unsat."""
import sys, subprocess, tempfile, os
src = open(sys.argv[1]).read().split('\n')
decl = [l for l in src if not l.startswith('(assert') and not l.startswith('(check-sat') and not l.startswith('(get-model')]
asserts = [l for l in src if l.startswith('(assert')]
def status(k):
    with tempfile.NamedTemporaryFile('w', suffix='.smt2', delete=False) as f:
        f.write('\n'.join(decl + asserts[:k] + ['(check-sat)']))
    try:
        out = subprocess.run(['z3-new', '-T:5', f.name], capture_output=True, text=True, timeout=10).stdout.split('\n')[0]
    except Exception:
        out = 'timeout'
    os.unlink(f.name)
    return out
lo, hi = 0, len(asserts)
if status(hi) != 'unsat':
    print('whole file is not unsat:', status(hi)); sys.exit(0)
while lo < hi:
    mid = (lo + hi) // 2
    if status(mid) == 'unsat': hi = mid
    else: lo = mid + 1
print('first unsat prefix ends at assertion', lo, 'of', len(asserts))
print(asserts[lo-1][:1500])
