#!/bin/bash
# Run every claimed property's quick check; print a summary; exit non-zero if any check alarms on the current tree.
cd "$(dirname "$0")/.."
bad=0
for id in $(python3 -c "import json;print(' '.join(c['property_id'] if 'property_id' in c else c['id'] for c in json.load(open('MANIFEST.json'))['checks']))" 2>/dev/null || echo C01 C03 C04 C05 C06 C08 C09 C10 C11 C12 C13 C14 C15 C16 C17 C18 C19 C20); do
  out=$(./check $id 2>&1); rc=$?
  echo "$out" | grep "^property" | cut -c1-150
  if [ $rc -ne 0 ] || echo "$out" | grep -q "^VIOLATION\|^BROKEN\|^UNDECIDED"; then bad=1; echo "$out" | grep "^VIOLATION\|^BROKEN\|^UNDECIDED\|failed obl" | cut -c1-250 | head -5; fi
done
[ $bad -eq 0 ] && echo "precommit: all checks clean" || echo "precommit: ALARMS - do not commit"
exit $bad
