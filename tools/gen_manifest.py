#!/usr/bin/env python3
"""Regenerates /verif/MANIFEST.json from tools/props_table.json (claimed checks and not-applicable reasons)."""
import json, os, subprocess
here = os.path.dirname(os.path.abspath(__file__))
root = os.path.dirname(here)
table = json.load(open(os.path.join(here, "props_table.json")))
baseline = json.load(open("/root/.vp/BASELINE.json"))["cmd"]
try:
    hooks_commits = [l.split()[0] for l in subprocess.check_output(
        ["git", "-C", "/repo", "log", "--format=%h %s", "--grep=^verif-hook:"], text=True).splitlines()]
except Exception:
    hooks_commits = []
checks, na = [], []
for pid in sorted(table):
    e = table[pid]
    if e.get("claimed"):
        checks.append({
            "property_id": pid,
            "quick_cmd": f"./check {pid} --tier quick",
            "thorough_cmd": f"./check {pid} --tier thorough",
            "evidence_file": f"/verif/evidence/{pid}.json",
            "replay_cmd_template": f"./check {pid} --replay {{path}}",
            "engine": "govc",
            "level_claimed": {"category": "proof", "text": e["text"], "design_ref": e.get("design_ref", "DESIGN.md §4 " + pid)},
            "level_note": e["note"],
            "technique": e.get("technique", "contract-based deductive verification: weakest-precondition style VCs generated from the typed Go AST of the real functions, discharged by z3/cvc5"),
        })
    else:
        na.append({"property_id": pid, "reason": e["reason"]})
m = {
    "version": 1,
    "setup_cmd": "cd /verif/govc && PATH=/opt/veriftools/go1.26.8/bin:$PATH GOTOOLCHAIN=local GOFLAGS=-mod=mod GOPROXY=off go build -o /verif/bin/govc .",
    "hooks": {
        "guard": "verif",
        "enable": "-tags verif (comment-only contract files contracts_verif.go; they contain no code, so the tag changes nothing in the build)",
        "baseline_off_cmd": baseline,
        "source_commits": hooks_commits,
        "add_only": True,
    },
    "engines": [{"name": "govc", "path": "/verif/govc", "serves_properties": [c["property_id"] for c in checks],
                 "kind_free_text": "home-made VC generator for Go (go/packages + go/types, forward symbolic execution with contracts kept in //@ comment files), z3 4.8.12 / z3 5.1.0 / cvc5 1.0.3 portfolio"}],
    "checks": checks,
    "not_applicable": na,
    "notes": "Exit codes of ./check: 0 held, 1 VIOLATION, 2 broken check (engine self-check failed), 3 undecided (a keyed function or loop disappeared). Known findings: /verif/known_findings.txt.",
}
json.dump(m, open(os.path.join(root, "MANIFEST.json"), "w"), indent=1)
print("claimed:", [c["property_id"] for c in checks], "n/a:", len(na))
