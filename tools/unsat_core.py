#!/usr/bin/env python3
"""Debug helper: print the assertions in z3's unsat core for an SMT file."""
import sys, subprocess, re
src = open(sys.argv[1]).read().split('\n')
out = ['(set-option :produce-unsat-cores true)']
names = {}
k = 0
for l in src:
    if l.startswith('(assert '):
        k += 1
        body = l[len('(assert '):-1]
        out.append('(assert (! %s :named a%d))' % (body, k))
        names['a%d' % k] = body
    elif l.startswith('(get-model'):
        out.append('(get-unsat-core)')
    else:
        out.append(l)
open('/tmp/core.smt2', 'w').write('\n'.join(out))
r = subprocess.run(['z3-new', '-T:30', '/tmp/core.smt2'], capture_output=True, text=True, timeout=40).stdout
print(r.split('\n')[0])
m = re.search(r'\(([a0-9 ]+)\)', r)
if m:
    for n in m.group(1).split():
        print(n, names[n][:int(sys.argv[2]) if len(sys.argv) > 2 else 300])
